//! Model codec: an injective, fixed-width, self-describing encoding of the serde data model subset
//! used by p2panda wire types. Stands in for ciborium (third-party) under the solver.
use serde::de::{self, DeserializeSeed, SeqAccess, Visitor};
use serde::ser::{self, Serialize};
use std::fmt;

#[derive(Debug)]
pub struct MErr;
impl fmt::Display for MErr { fn fmt(&self, _f: &mut fmt::Formatter<'_>) -> fmt::Result { Ok(()) } }
impl std::error::Error for MErr {}
impl ser::Error for MErr { fn custom<T: fmt::Display>(_m: T) -> Self { MErr } }
impl de::Error for MErr { fn custom<T: fmt::Display>(_m: T) -> Self { MErr } }

const T_U: u8 = 1; const T_BYTES: u8 = 2; const T_SEQ: u8 = 3; const T_BOOL: u8 = 4; const T_UNIT: u8 = 5; const T_NONE: u8 = 6; const T_SOME: u8 = 7; const T_STR: u8 = 8;

pub struct Ser { pub out: Vec<u8> }
impl Ser {
    fn u(&mut self, v: u64) { self.out.push(T_U); self.out.extend_from_slice(&v.to_be_bytes()); }
    fn len(&mut self, n: usize) { self.out.extend_from_slice(&(n as u32).to_be_bytes()); }
}
pub fn to_vec<T: Serialize + ?Sized>(v: &T) -> Result<Vec<u8>, MErr> { let mut s = Ser { out: Vec::with_capacity(512) }; v.serialize(&mut s)?; Ok(s.out) }

pub struct SeqSer<'a> { s: &'a mut Ser }
impl<'a> ser::SerializeSeq for SeqSer<'a> { type Ok = (); type Error = MErr;
    fn serialize_element<T: ?Sized + Serialize>(&mut self, v: &T) -> Result<(), MErr> { v.serialize(&mut *self.s) }
    fn end(self) -> Result<(), MErr> { Ok(()) } }
impl<'a> ser::SerializeTuple for SeqSer<'a> { type Ok = (); type Error = MErr;
    fn serialize_element<T: ?Sized + Serialize>(&mut self, v: &T) -> Result<(), MErr> { v.serialize(&mut *self.s) }
    fn end(self) -> Result<(), MErr> { Ok(()) } }
impl<'a> ser::SerializeTupleStruct for SeqSer<'a> { type Ok = (); type Error = MErr;
    fn serialize_field<T: ?Sized + Serialize>(&mut self, v: &T) -> Result<(), MErr> { v.serialize(&mut *self.s) }
    fn end(self) -> Result<(), MErr> { Ok(()) } }
pub struct Never;
macro_rules! never { ($tr:path, $m:ident $(, $k:ty)?) => { impl $tr for Never { type Ok = (); type Error = MErr;
    fn $m<T: ?Sized + Serialize>(&mut self, $(_k: $k,)? _v: &T) -> Result<(), MErr> { Err(MErr) } fn end(self) -> Result<(), MErr> { Err(MErr) } } } }
never!(ser::SerializeTupleVariant, serialize_field);
never!(ser::SerializeStruct, serialize_field, &'static str);
never!(ser::SerializeStructVariant, serialize_field, &'static str);
impl ser::SerializeMap for Never { type Ok = (); type Error = MErr;
    fn serialize_key<T: ?Sized + Serialize>(&mut self, _k: &T) -> Result<(), MErr> { Err(MErr) }
    fn serialize_value<T: ?Sized + Serialize>(&mut self, _v: &T) -> Result<(), MErr> { Err(MErr) }
    fn end(self) -> Result<(), MErr> { Err(MErr) } }

impl<'a> ser::Serializer for &'a mut Ser {
    type Ok = (); type Error = MErr;
    type SerializeSeq = SeqSer<'a>; type SerializeTuple = SeqSer<'a>; type SerializeTupleStruct = SeqSer<'a>;
    type SerializeTupleVariant = Never; type SerializeMap = Never; type SerializeStruct = Never; type SerializeStructVariant = Never;
    fn is_human_readable(&self) -> bool { false }
    fn serialize_bool(self, v: bool) -> Result<(), MErr> { self.out.push(T_BOOL); self.out.push(v as u8); Ok(()) }
    fn serialize_i8(self, v: i8) -> Result<(), MErr> { self.u(v as u64); Ok(()) }
    fn serialize_i16(self, v: i16) -> Result<(), MErr> { self.u(v as u64); Ok(()) }
    fn serialize_i32(self, v: i32) -> Result<(), MErr> { self.u(v as u64); Ok(()) }
    fn serialize_i64(self, v: i64) -> Result<(), MErr> { self.u(v as u64); Ok(()) }
    fn serialize_u8(self, v: u8) -> Result<(), MErr> { self.u(v as u64); Ok(()) }
    fn serialize_u16(self, v: u16) -> Result<(), MErr> { self.u(v as u64); Ok(()) }
    fn serialize_u32(self, v: u32) -> Result<(), MErr> { self.u(v as u64); Ok(()) }
    fn serialize_u64(self, v: u64) -> Result<(), MErr> { self.u(v); Ok(()) }
    fn serialize_f32(self, _v: f32) -> Result<(), MErr> { Err(MErr) }
    fn serialize_f64(self, _v: f64) -> Result<(), MErr> { Err(MErr) }
    fn serialize_char(self, _v: char) -> Result<(), MErr> { Err(MErr) }
    fn serialize_str(self, v: &str) -> Result<(), MErr> { self.out.push(T_STR); self.len(v.len()); self.out.extend_from_slice(v.as_bytes()); Ok(()) }
    fn serialize_bytes(self, v: &[u8]) -> Result<(), MErr> { self.out.push(T_BYTES); self.len(v.len()); self.out.extend_from_slice(v); Ok(()) }
    fn serialize_none(self) -> Result<(), MErr> { self.out.push(T_NONE); Ok(()) }
    fn serialize_some<T: ?Sized + Serialize>(self, v: &T) -> Result<(), MErr> { self.out.push(T_SOME); v.serialize(self) }
    fn serialize_unit(self) -> Result<(), MErr> { self.out.push(T_UNIT); Ok(()) }
    fn serialize_unit_struct(self, _n: &'static str) -> Result<(), MErr> { self.out.push(T_UNIT); Ok(()) }
    fn serialize_unit_variant(self, _n: &'static str, i: u32, _v: &'static str) -> Result<(), MErr> { self.u(i as u64); Ok(()) }
    fn serialize_newtype_struct<T: ?Sized + Serialize>(self, _n: &'static str, v: &T) -> Result<(), MErr> { v.serialize(self) }
    fn serialize_newtype_variant<T: ?Sized + Serialize>(self, _n: &'static str, _i: u32, _v: &'static str, _val: &T) -> Result<(), MErr> { Err(MErr) }
    fn serialize_seq(self, len: Option<usize>) -> Result<SeqSer<'a>, MErr> { let n = len.ok_or(MErr)?; self.out.push(T_SEQ); self.len(n); Ok(SeqSer { s: self }) }
    fn serialize_tuple(self, len: usize) -> Result<SeqSer<'a>, MErr> { self.out.push(T_SEQ); self.len(len); Ok(SeqSer { s: self }) }
    fn serialize_tuple_struct(self, _n: &'static str, len: usize) -> Result<SeqSer<'a>, MErr> { self.out.push(T_SEQ); self.len(len); Ok(SeqSer { s: self }) }
    fn serialize_tuple_variant(self, _n: &'static str, _i: u32, _v: &'static str, _l: usize) -> Result<Never, MErr> { Err(MErr) }
    fn serialize_map(self, _l: Option<usize>) -> Result<Never, MErr> { Err(MErr) }
    fn serialize_struct(self, _n: &'static str, _l: usize) -> Result<Never, MErr> { Err(MErr) }
    fn serialize_struct_variant(self, _n: &'static str, _i: u32, _v: &'static str, _l: usize) -> Result<Never, MErr> { Err(MErr) }
}

pub struct De<'de> { pub inp: &'de [u8], pub pos: usize }
impl<'de> De<'de> {
    fn byte(&mut self) -> Result<u8, MErr> { if self.pos < self.inp.len() { let b = self.inp[self.pos]; self.pos += 1; Ok(b) } else { Err(MErr) } }
    fn peek(&self) -> Result<u8, MErr> { if self.pos < self.inp.len() { Ok(self.inp[self.pos]) } else { Err(MErr) } }
    fn take(&mut self, n: usize) -> Result<&'de [u8], MErr> { if self.pos + n <= self.inp.len() { let s = &self.inp[self.pos..self.pos + n]; self.pos += n; Ok(s) } else { Err(MErr) } }
    fn len(&mut self) -> Result<usize, MErr> { let b = self.take(4)?; Ok(u32::from_be_bytes([b[0], b[1], b[2], b[3]]) as usize) }
    fn u(&mut self) -> Result<u64, MErr> { if self.byte()? != T_U { return Err(MErr); } let b = self.take(8)?; Ok(u64::from_be_bytes([b[0],b[1],b[2],b[3],b[4],b[5],b[6],b[7]])) }
}
pub fn from_slice<'de, T: de::Deserialize<'de>>(inp: &'de [u8]) -> Result<T, MErr> { let mut d = De { inp, pos: 0 }; let v = T::deserialize(&mut d)?; if d.pos != inp.len() { return Err(MErr); } Ok(v) }

struct Seq<'a, 'de> { d: &'a mut De<'de>, left: usize }
impl<'a, 'de> SeqAccess<'de> for Seq<'a, 'de> { type Error = MErr;
    fn next_element_seed<S: DeserializeSeed<'de>>(&mut self, seed: S) -> Result<Option<S::Value>, MErr> {
        if self.left == 0 { return Ok(None); } self.left -= 1; seed.deserialize(&mut *self.d).map(Some) }
    fn size_hint(&self) -> Option<usize> { Some(self.left) } }

macro_rules! de_u { ($m:ident, $v:ident, $t:ty) => { fn $m<V: Visitor<'de>>(self, v: V) -> Result<V::Value, MErr> { let x = self.u()?; if x > <$t>::MAX as u64 { return Err(MErr); } v.$v(x as $t) } } }
impl<'a, 'de> de::Deserializer<'de> for &'a mut De<'de> {
    type Error = MErr;
    fn is_human_readable(&self) -> bool { false }
    fn deserialize_any<V: Visitor<'de>>(self, v: V) -> Result<V::Value, MErr> {
        match self.peek()? { T_U => self.deserialize_u64(v), T_BYTES => self.deserialize_bytes(v), T_SEQ => self.deserialize_seq(v), T_BOOL => self.deserialize_bool(v), _ => Err(MErr) } }
    fn deserialize_bool<V: Visitor<'de>>(self, v: V) -> Result<V::Value, MErr> { if self.byte()? != T_BOOL { return Err(MErr); } let b = self.byte()?; if b > 1 { return Err(MErr); } v.visit_bool(b == 1) }
    de_u!(deserialize_u8, visit_u8, u8); de_u!(deserialize_u16, visit_u16, u16); de_u!(deserialize_u32, visit_u32, u32); de_u!(deserialize_u64, visit_u64, u64);
    fn deserialize_i8<V: Visitor<'de>>(self, _v: V) -> Result<V::Value, MErr> { Err(MErr) }
    fn deserialize_i16<V: Visitor<'de>>(self, _v: V) -> Result<V::Value, MErr> { Err(MErr) }
    fn deserialize_i32<V: Visitor<'de>>(self, _v: V) -> Result<V::Value, MErr> { Err(MErr) }
    fn deserialize_i64<V: Visitor<'de>>(self, _v: V) -> Result<V::Value, MErr> { Err(MErr) }
    fn deserialize_f32<V: Visitor<'de>>(self, _v: V) -> Result<V::Value, MErr> { Err(MErr) }
    fn deserialize_f64<V: Visitor<'de>>(self, _v: V) -> Result<V::Value, MErr> { Err(MErr) }
    fn deserialize_char<V: Visitor<'de>>(self, _v: V) -> Result<V::Value, MErr> { Err(MErr) }
    fn deserialize_str<V: Visitor<'de>>(self, _v: V) -> Result<V::Value, MErr> { Err(MErr) }
    fn deserialize_string<V: Visitor<'de>>(self, _v: V) -> Result<V::Value, MErr> { Err(MErr) }
    fn deserialize_bytes<V: Visitor<'de>>(self, v: V) -> Result<V::Value, MErr> { if self.byte()? != T_BYTES { return Err(MErr); } let n = self.len()?; let b = self.take(n)?; v.visit_borrowed_bytes(b) }
    fn deserialize_byte_buf<V: Visitor<'de>>(self, v: V) -> Result<V::Value, MErr> { self.deserialize_bytes(v) }
    fn deserialize_option<V: Visitor<'de>>(self, v: V) -> Result<V::Value, MErr> { match self.byte()? { T_NONE => v.visit_none(), T_SOME => v.visit_some(self), _ => Err(MErr) } }
    fn deserialize_unit<V: Visitor<'de>>(self, v: V) -> Result<V::Value, MErr> { if self.byte()? != T_UNIT { return Err(MErr); } v.visit_unit() }
    fn deserialize_unit_struct<V: Visitor<'de>>(self, _n: &'static str, v: V) -> Result<V::Value, MErr> { self.deserialize_unit(v) }
    fn deserialize_newtype_struct<V: Visitor<'de>>(self, _n: &'static str, v: V) -> Result<V::Value, MErr> { v.visit_newtype_struct(self) }
    fn deserialize_seq<V: Visitor<'de>>(self, v: V) -> Result<V::Value, MErr> { if self.byte()? != T_SEQ { return Err(MErr); } let n = self.len()?; if n > 16 { return Err(MErr); }
        let mut s = Seq { d: self, left: n }; let out = v.visit_seq(&mut s)?; if s.left != 0 { return Err(MErr); } Ok(out) }
    fn deserialize_tuple<V: Visitor<'de>>(self, _l: usize, v: V) -> Result<V::Value, MErr> { self.deserialize_seq(v) }
    fn deserialize_tuple_struct<V: Visitor<'de>>(self, _n: &'static str, _l: usize, v: V) -> Result<V::Value, MErr> { self.deserialize_seq(v) }
    fn deserialize_map<V: Visitor<'de>>(self, _v: V) -> Result<V::Value, MErr> { Err(MErr) }
    fn deserialize_struct<V: Visitor<'de>>(self, _n: &'static str, _f: &'static [&'static str], _v: V) -> Result<V::Value, MErr> { Err(MErr) }
    fn deserialize_enum<V: Visitor<'de>>(self, _n: &'static str, _f: &'static [&'static str], _v: V) -> Result<V::Value, MErr> { Err(MErr) }
    fn deserialize_identifier<V: Visitor<'de>>(self, _v: V) -> Result<V::Value, MErr> { Err(MErr) }
    fn deserialize_ignored_any<V: Visitor<'de>>(self, _v: V) -> Result<V::Value, MErr> { Err(MErr) }
}
