// Shared by every harness crate (mounted with #[path]).
//
// One harness body, two builds:
//   * cfg(kani): values come from the solver (kani::any), assumptions constrain the query,
//     `vassert!` is the property assertion, `witness!` is a vacuity witness (kani::cover!).
//   * native (cfg(not(kani))): values come from a *script* — the solver's counterexample, one
//     little-endian byte vector per `any_*` call in call order — so the very same body replays the
//     counterexample against the natively compiled real code.  A failing `vassert!` prints
//     `REPLAY-FAIL <label>` and exits 101; an unmet assumption prints `REPLAY-ASSUME-FAILED`
//     (the script does not belong to this harness) and exits 102.
#![allow(dead_code, unused_macros, unused_imports)]

#[cfg(not(kani))]
pub mod script {
    use std::cell::RefCell;
    thread_local! { static SCRIPT: RefCell<(Vec<Vec<u8>>, usize)> = RefCell::new((Vec::new(), 0)); }

    pub fn load(values: Vec<Vec<u8>>) { SCRIPT.with(|s| *s.borrow_mut() = (values, 0)); }

    /// Script text: one value per line, comma/space separated decimal bytes; '#' comments.
    pub fn parse(text: &str) -> Vec<Vec<u8>> {
        let mut out = Vec::new();
        for line in text.lines() {
            let line = line.split('#').next().unwrap().trim();
            if line.is_empty() { continue; }
            out.push(line.split(|c: char| c == ',' || c.is_whitespace())
                .filter(|t| !t.is_empty())
                .map(|t| t.parse::<u8>().expect("byte")).collect());
        }
        out
    }

    // ---------------------------------------------------------------------------------------
    // Search mode (fallback when the solver's trace is too large for Kani's concrete playback):
    // the harness' small finite input domain is enumerated natively — every `any_below(n)` /
    // `any_bool()` draw is a digit of an odometer, every other draw is 0 — until a labelled
    // assertion fails. The failing digits are printed as a replay script.
    // ---------------------------------------------------------------------------------------
    thread_local! { pub static SEARCH: RefCell<Option<(Vec<u8>, Vec<u8>, usize)>> = RefCell::new(None); } // (digits, bases, pos)
    pub fn search_active() -> bool { SEARCH.with(|s| s.borrow().is_some()) }
    pub fn search_digit(base: u8) -> u8 {
        SEARCH.with(|s| {
            let mut g = s.borrow_mut();
            let st = g.as_mut().unwrap();
            let p = st.2;
            st.2 += 1;
            if p >= st.0.len() { st.0.push(0); st.1.push(base); }
            st.1[p] = base;
            if st.0[p] >= base { st.0[p] = 0; }
            st.0[p]
        })
    }
    /// advance the odometer; false when the domain is exhausted
    pub fn search_advance() -> bool {
        SEARCH.with(|s| {
            let mut g = s.borrow_mut();
            let st = g.as_mut().unwrap();
            st.0.truncate(st.2.min(st.0.len()));
            st.1.truncate(st.0.len());
            let mut i = st.0.len();
            while i > 0 {
                i -= 1;
                if st.0[i] + 1 < st.1[i] { st.0[i] += 1; st.0.truncate(i + 1); st.1.truncate(i + 1); st.2 = 0; return true; }
            }
            false
        })
    }
    pub struct SearchAbort;        // unmet assumption: next candidate
    pub struct SearchHit(pub String); // failing label

    pub fn next(n: usize) -> Vec<u8> {
        if search_active() { return vec![0u8; n]; }
        SCRIPT.with(|s| {
            let mut s = s.borrow_mut();
            let i = s.1;
            s.1 += 1;
            match s.0.get(i) {
                Some(v) if v.len() == n => v.clone(),
                Some(v) => { println!("REPLAY-SCRIPT-MISMATCH value {} has {} bytes, harness asks for {}", i, v.len(), n); std::process::exit(103) }
                // Values the solver did not need (sliced away) are unconstrained: use zero.
                None => vec![0u8; n],
            }
        })
    }
}

macro_rules! any_int {
    ($name:ident, $t:ty, $n:expr) => {
        #[inline(never)]
        pub fn $name() -> $t {
            #[cfg(kani)]
            { kani::any::<$t>() }
            #[cfg(not(kani))]
            { let v = script::next($n); let mut b = [0u8; $n]; b.copy_from_slice(&v); <$t>::from_le_bytes(b) }
        }
    };
}
any_int!(any_u8, u8, 1);
any_int!(any_u16, u16, 2);
any_int!(any_u32, u32, 4);
any_int!(any_u64, u64, 8);
any_int!(any_usize, usize, 8);

/// A u32 that the native search fallback enumerates over 0..4 (for harnesses whose verdict depends only
/// on order/adjacency of such values); any u32 under the solver and in script replay.
pub fn any_u32_searchable() -> u32 {
    #[cfg(not(kani))]
    if script::search_active() { return script::search_digit(4) as u32; }
    any_u32()
}

pub fn any_bool() -> bool {
    #[cfg(not(kani))]
    if script::search_active() { return script::search_digit(2) == 1; }
    any_u8() & 1 == 1
}

/// Value in `0..n` (n > 0).
pub fn any_below(n: u8) -> u8 {
    #[cfg(not(kani))]
    if script::search_active() { return script::search_digit(n); }
    let v = any_u8(); assume(v < n); v
}

pub fn any_bytes<const N: usize>() -> [u8; N] {
    let mut out = [0u8; N];
    let mut i = 0;
    while i < N { out[i] = any_u8(); i += 1; }
    out
}

pub fn assume(c: bool) {
    #[cfg(kani)]
    kani::assume(c);
    #[cfg(not(kani))]
    if !c {
        if script::search_active() { std::panic::panic_any(script::SearchAbort); }
        println!("REPLAY-ASSUME-FAILED"); std::process::exit(102);
    }
}

pub fn replay_fail(label: &str) -> ! {
    #[cfg(not(kani))]
    if script::search_active() { std::panic::panic_any(script::SearchHit(label.to_string())); }
    println!("REPLAY-FAIL {}", label);
    std::process::exit(101)
}

/// Native search driver: runs `harness` over its enumerated domain (at most `limit` candidates).
#[cfg(not(kani))]
pub fn search(harness: fn(), limit: usize) {
    script::SEARCH.with(|s| *s.borrow_mut() = Some((Vec::new(), Vec::new(), 0)));
    std::panic::set_hook(Box::new(|_| {}));
    let mut tried = 0usize;
    loop {
        script::SEARCH.with(|s| s.borrow_mut().as_mut().unwrap().2 = 0);
        let r = std::panic::catch_unwind(harness);
        tried += 1;
        if let Err(e) = r {
            if let Some(hit) = e.downcast_ref::<script::SearchHit>() {
                let digits = script::SEARCH.with(|s| s.borrow().as_ref().unwrap().0.clone());
                println!("SEARCH-SCRIPT {}", digits.iter().map(|d| d.to_string()).collect::<Vec<_>>().join(" "));
                println!("SEARCH-TRIED {}", tried);
                println!("REPLAY-FAIL {}", hit.0);
                std::process::exit(101);
            } else if e.downcast_ref::<script::SearchAbort>().is_none() {
                // a genuine panic of the code under test on this candidate
                let digits = script::SEARCH.with(|s| s.borrow().as_ref().unwrap().0.clone());
                println!("SEARCH-SCRIPT {}", digits.iter().map(|d| d.to_string()).collect::<Vec<_>>().join(" "));
                println!("REPLAY-PANIC");
                std::process::exit(101);
            }
        }
        if tried >= limit || !script::search_advance() { break; }
    }
    println!("SEARCH-TRIED {}", tried);
    println!("SEARCH-EXHAUSTED");
}

/// Property assertion. The label must start with the property id (`C18.strict: …`).
#[macro_export]
macro_rules! vassert {
    ($c:expr, $label:literal) => {{
        #[cfg(kani)]
        { assert!($c, $label); }
        #[cfg(not(kani))]
        { if !($c) { $crate::sym::replay_fail($label); } }
    }};
}

/// Vacuity witness: must be SATISFIED in the solver run, no-op natively.
#[macro_export]
macro_rules! witness {
    ($c:expr, $label:literal) => {{
        #[cfg(kani)]
        { kani::cover!($c, $label); }
        #[cfg(not(kani))]
        { let _ = $c; }
    }};
}

// ------------------------------------------------------------------------------------------------
// Wall clock (std::time::SystemTime::now) shared control.
//   * Kani: `#[kani::stub(std::time::SystemTime::now, crate::sym::clock::systemtime_now_stub)]`
//     returns UNIX_EPOCH + NOW (seconds + micros), an arbitrary value chosen by the harness.
//   * native replay: the run is started with LD_PRELOAD=/verif/.cache/fakeclock.so, which answers
//     clock_gettime(CLOCK_REALTIME) from the environment variable set here — the real std code then
//     reads exactly the solver's clock value.
// ------------------------------------------------------------------------------------------------
pub mod clock {
    pub static mut NOW_SECS: u64 = 0;
    pub static mut NOW_NANOS: u32 = 0;

    pub fn set_realtime(secs: u64, nanos: u32) {
        unsafe { NOW_SECS = secs; NOW_NANOS = nanos; }
        #[cfg(not(kani))]
        unsafe { std::env::set_var("VERIF_FAKE_REALTIME", format!("{} {}", secs, nanos)); }
    }

    pub fn systemtime_now_stub() -> std::time::SystemTime {
        std::time::UNIX_EPOCH + std::time::Duration::new(unsafe { NOW_SECS }, unsafe { NOW_NANOS })
    }

    /// Kani stub for `SystemTime::duration_since` (only ever called as `now.duration_since(UNIX_EPOCH)`
    /// in the code under test): the Timespec subtraction in std is recursive and expensive to unwind.
    pub fn duration_since_stub(_t: &std::time::SystemTime, _earlier: std::time::SystemTime) -> Result<std::time::Duration, std::time::SystemTimeError> {
        Ok(std::time::Duration::new(unsafe { NOW_SECS }, unsafe { NOW_NANOS }))
    }

    /// natively: check that the preloaded clock is in effect (otherwise the replay is meaningless)
    #[cfg(not(kani))]
    pub fn assert_fake_clock_active() {
        let now = std::time::SystemTime::now().duration_since(std::time::UNIX_EPOCH).map(|d| d.as_secs()).unwrap_or(u64::MAX);
        if now != unsafe { NOW_SECS } { println!("REPLAY-ENV-FAILED fake clock not active (now={} wanted={})", now, unsafe { NOW_SECS }); std::process::exit(104); }
    }
    #[cfg(kani)]
    pub fn assert_fake_clock_active() {}
}
