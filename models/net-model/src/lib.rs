//! Contract model of `p2panda_net::gossip::{GossipHandle, GossipSubscription}`.
pub mod gossip {
    use futures_util::Stream;
    use std::pin::Pin;
    use std::task::{Context, Poll, Waker};

    /// Item error of the real subscription (broadcast channel lagged).
    #[derive(Debug)]
    pub struct Lagged;

    pub const SCRIPT_LEN: usize = 4;

    /// Scripted subscription: items are handed out front to back. `Stream` contract: it returns
    /// `Pending` only when no item is queued, and then it has registered the waker.
    #[derive(Debug)]
    pub struct GossipSubscription {
        pub script: [Option<Result<Vec<u8>, Lagged>>; SCRIPT_LEN],
        pub pos: usize,
        pub registered: Option<Waker>,
        pub closed: bool,
    }
    impl GossipSubscription {
        pub fn scripted(script: [Option<Result<Vec<u8>, Lagged>>; SCRIPT_LEN], closed: bool) -> Self { Self { script, pos: 0, registered: None, closed } }
        pub fn queued(&self) -> usize { let mut n = 0; let mut i = self.pos; while i < SCRIPT_LEN { if self.script[i].is_some() { n += 1; } i += 1; } n }
    }
    impl Stream for GossipSubscription {
        type Item = Result<Vec<u8>, Lagged>;
        fn poll_next(mut self: Pin<&mut Self>, cx: &mut Context<'_>) -> Poll<Option<Self::Item>> {
            let this = &mut *self;
            while this.pos < SCRIPT_LEN {
                let i = this.pos;
                this.pos += 1;
                if let Some(item) = this.script[i].take() { return Poll::Ready(Some(item)); }
            }
            if this.closed { return Poll::Ready(None); }
            this.registered = Some(cx.waker().clone());
            Poll::Pending
        }
    }

    /// Publishing side: records what was published (single-threaded harnesses: Rc<RefCell>).
    #[derive(Clone, Debug, Default)]
    pub struct GossipHandle { pub published: std::rc::Rc<std::cell::RefCell<Vec<Vec<u8>>>> }
    impl GossipHandle {
        pub fn subscribe(&self) -> GossipSubscription { GossipSubscription::scripted([None, None, None, None], false) }
        pub async fn publish(&self, bytes: impl Into<Vec<u8>>) -> Result<(), ()> { self.published.borrow_mut().push(bytes.into()); Ok(()) }
    }
}
