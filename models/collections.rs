//! Solver-friendly stand-ins for `std::collections::{BTreeMap, HashMap, HashSet, VecDeque}`.
//!
//! Mounted as `crate::verif_models` into harness crates / staged p2panda crates; the file under
//! test has its `use std::collections::…` line redirected here (and nothing else changed).
//!
//! * under the solver (`cfg(kani)`): fixed-capacity inline arrays (capacity `crate::MODEL_CAP`, an
//!   overflow is a failed *model* assertion → the run is inconclusive, never a silent pass),
//!   implementing the documented contract of the std type:
//!     - BTreeMap: unique keys, ascending iteration
//!     - HashMap/HashSet: unique keys, **iteration order is an arbitrary rotation chosen by the solver
//!       for every iteration** (std documents the order as arbitrary) — this is what exposes
//!       order-dependent code
//!     - VecDeque: FIFO with `capacity()` == the requested capacity (grows by one when full)
//! * natively (replay build): the real std types.
#![allow(dead_code)]

#[cfg(not(kani))]
pub use std::collections::{hash_map, BTreeMap, BTreeSet, HashMap, HashSet, VecDeque};

#[cfg(kani)]
pub use model::*;

#[cfg(kani)]
mod model {
    use crate::MODEL_CAP as CAP;
    use std::cmp::Ordering;
    use std::hash::{Hash, Hasher};

    fn empty<T>() -> [Option<T>; CAP] { std::array::from_fn(|_| None) }

    fn any_rot(n: usize) -> usize {
        if n <= 1 { 0 } else { let r: usize = kani::any(); kani::assume(r < n); r }
    }

    // NOTE on style: every slot access below uses a CONCRETE index (a loop counter) guarded by a
    // possibly symbolic condition. A symbolic index into an array of large elements is what makes
    // CBMC's formula explode (measured: 33 GB -> 4 GB for the ratchet harness).

    /// slot `i` (symbolic) by concrete scan
    fn at<T>(slots: &[Option<T>; CAP], i: usize) -> Option<&T> {
        let mut k = 0;
        while k < CAP { if k == i { return slots[k].as_ref(); } k += 1; }
        None
    }
    fn at_mut<T>(slots: &mut [Option<T>; CAP], i: usize) -> Option<&mut T> {
        let mut k = 0;
        while k < CAP { if k == i { return slots[k].as_mut(); } k += 1; }
        None
    }
    fn put<T>(slots: &mut [Option<T>; CAP], i: usize, v: T) {
        let mut v = Some(v);
        let mut k = 0;
        while k < CAP { if k == i { slots[k] = v.take(); } k += 1; }
    }
    fn take_at<T>(slots: &mut [Option<T>; CAP], i: usize) -> Option<T> {
        let mut k = 0;
        while k < CAP { if k == i { return slots[k].take(); } k += 1; }
        None
    }
    /// remove slot `i` of a dense prefix of length `len` by moving the last element into it
    fn swap_remove<T>(slots: &mut [Option<T>; CAP], len: usize, i: usize) -> Option<T> {
        let out = take_at(slots, i);
        let last = len - 1;
        if i != last { let l = take_at(slots, last); if let Some(l) = l { put(slots, i, l); } }
        out
    }
    /// remove slot `i` of a dense prefix keeping the order
    fn shift_remove<T>(slots: &mut [Option<T>; CAP], len: usize, i: usize) -> Option<T> {
        let out = take_at(slots, i);
        let mut k = 1;
        while k < CAP { if k > i && k < len { slots[k - 1] = slots[k].take(); } k += 1; }
        out
    }
    /// insert at position `pos` of a dense prefix keeping the order
    fn shift_insert<T>(slots: &mut [Option<T>; CAP], len: usize, pos: usize, v: T) {
        let mut j = CAP - 1;
        while j > 0 { if j > pos && j <= len { slots[j] = slots[j - 1].take(); } j -= 1; }
        put(slots, pos, v);
    }

    // ------------------------------------------------------------------ BTreeMap
    #[derive(Clone, Debug)]
    pub struct BTreeMap<K, V> { slots: [Option<(K, V)>; CAP], len: usize }
    impl<K, V> Default for BTreeMap<K, V> { fn default() -> Self { Self { slots: empty(), len: 0 } } }
    impl<K, V> BTreeMap<K, V> {
        pub fn new() -> Self { Self::default() }
        pub fn len(&self) -> usize { self.len }
        pub fn is_empty(&self) -> bool { self.len == 0 }
        pub fn iter(&self) -> BIter<'_, K, V> { BIter { map: self, n: 0 } }
        pub fn keys(&self) -> impl Iterator<Item = &K> { self.iter().map(|(k, _)| k) }
        pub fn values(&self) -> impl Iterator<Item = &V> { self.iter().map(|(_, v)| v) }
    }
    impl<K: Ord, V> BTreeMap<K, V> {
        /// Ok(index of the key) or Err(insert position)
        fn find(&self, k: &K) -> Result<usize, usize> {
            let mut i = 0;
            while i < CAP {
                if i < self.len {
                    match self.slots[i].as_ref().unwrap().0.cmp(k) {
                        Ordering::Equal => return Ok(i),
                        Ordering::Greater => return Err(i),
                        Ordering::Less => {}
                    }
                }
                i += 1;
            }
            Err(self.len)
        }
        pub fn get(&self, k: &K) -> Option<&V> {
            let mut i = 0;
            while i < CAP {
                if i < self.len { if let Some((kk, v)) = &self.slots[i] { if kk == k { return Some(v); } } }
                i += 1;
            }
            None
        }
        pub fn get_mut(&mut self, k: &K) -> Option<&mut V> {
            let len = self.len;
            let mut i = 0;
            while i < CAP {
                if i < len { if let Some((kk, _)) = &self.slots[i] { if kk == k { return self.slots[i].as_mut().map(|p| &mut p.1); } } }
                i += 1;
            }
            None
        }
        pub fn contains_key(&self, k: &K) -> bool { self.get(k).is_some() }
        pub fn insert(&mut self, k: K, v: V) -> Option<V> {
            match self.find(&k) {
                Ok(i) => { let old = take_at(&mut self.slots, i); put(&mut self.slots, i, (k, v)); old.map(|p| p.1) }
                Err(pos) => {
                    assert!(self.len < CAP, "model map capacity exceeded (bound of the harness)");
                    shift_insert(&mut self.slots, self.len, pos, (k, v));
                    self.len += 1;
                    None
                }
            }
        }
        pub fn remove(&mut self, k: &K) -> Option<V> {
            match self.find(k) {
                Ok(i) => { let old = shift_remove(&mut self.slots, self.len, i); self.len -= 1; old.map(|p| p.1) }
                Err(_) => None,
            }
        }
        pub fn entry(&mut self, k: K) -> BEntry<'_, K, V> { BEntry { map: self, key: k } }
    }
    pub struct BEntry<'a, K, V> { map: &'a mut BTreeMap<K, V>, key: K }
    impl<'a, K: Ord, V> BEntry<'a, K, V> {
        pub fn or_insert_with<F: FnOnce() -> V>(self, f: F) -> &'a mut V {
            let i = match self.map.find(&self.key) {
                Ok(i) => i,
                Err(pos) => {
                    assert!(self.map.len < CAP, "model map capacity exceeded (bound of the harness)");
                    shift_insert(&mut self.map.slots, self.map.len, pos, (self.key, f()));
                    self.map.len += 1;
                    pos
                }
            };
            &mut at_mut(&mut self.map.slots, i).unwrap().1
        }
        pub fn or_insert(self, v: V) -> &'a mut V { self.or_insert_with(move || v) }
        pub fn or_default(self) -> &'a mut V where V: Default { self.or_insert_with(V::default) }
        pub fn and_modify<F: FnOnce(&mut V)>(self, f: F) -> Self { if let Some(v) = self.map.get_mut(&self.key) { f(v); } self }
    }
    pub struct BIter<'a, K, V> { map: &'a BTreeMap<K, V>, n: usize }
    impl<'a, K, V> Iterator for BIter<'a, K, V> {
        type Item = (&'a K, &'a V);
        fn next(&mut self) -> Option<Self::Item> {
            if self.n >= self.map.len { return None; }
            let i = self.n; self.n += 1;
            at(&self.map.slots, i).map(|p| (&p.0, &p.1))
        }
        fn size_hint(&self) -> (usize, Option<usize>) { let n = self.map.len - self.n; (n, Some(n)) }
    }
    impl<'a, K, V> IntoIterator for &'a BTreeMap<K, V> { type Item = (&'a K, &'a V); type IntoIter = BIter<'a, K, V>; fn into_iter(self) -> BIter<'a, K, V> { BIter { map: self, n: 0 } } }
    pub struct BIntoIter<K, V> { slots: [Option<(K, V)>; CAP], len: usize, n: usize }
    impl<K, V> Iterator for BIntoIter<K, V> {
        type Item = (K, V);
        fn next(&mut self) -> Option<(K, V)> { if self.n >= self.len { return None; } let i = self.n; self.n += 1; take_at(&mut self.slots, i) }
    }
    impl<K, V> IntoIterator for BTreeMap<K, V> { type Item = (K, V); type IntoIter = BIntoIter<K, V>; fn into_iter(self) -> BIntoIter<K, V> { BIntoIter { slots: self.slots, len: self.len, n: 0 } } }
    impl<K: Ord, V> FromIterator<(K, V)> for BTreeMap<K, V> { fn from_iter<I: IntoIterator<Item = (K, V)>>(it: I) -> Self { let mut m = Self::default(); for (k, v) in it { m.insert(k, v); } m } }
    impl<K: Ord, V, const N: usize> From<[(K, V); N]> for BTreeMap<K, V> { fn from(a: [(K, V); N]) -> Self { a.into_iter().collect() } }
    impl<K: PartialEq, V: PartialEq> PartialEq for BTreeMap<K, V> {
        fn eq(&self, o: &Self) -> bool {
            if self.len != o.len { return false; }
            let mut i = 0;
            while i < CAP { if i < self.len && self.slots[i] != o.slots[i] { return false; } i += 1; }
            true
        }
    }
    impl<K: Eq, V: Eq> Eq for BTreeMap<K, V> {}
    impl<K: PartialOrd, V: PartialOrd> PartialOrd for BTreeMap<K, V> { fn partial_cmp(&self, o: &Self) -> Option<Ordering> { self.into_iter().partial_cmp(o.into_iter()) } }
    impl<K: Ord, V: Ord> Ord for BTreeMap<K, V> { fn cmp(&self, o: &Self) -> Ordering { self.into_iter().cmp(o.into_iter()) } }
    impl<K: Hash, V: Hash> Hash for BTreeMap<K, V> { fn hash<H: Hasher>(&self, h: &mut H) { self.len.hash(h); let mut i = 0; while i < CAP { if i < self.len { self.slots[i].hash(h); } i += 1; } } }

    // ------------------------------------------------------------------ HashMap
    #[derive(Clone, Debug)]
    pub struct HashMap<K, V> { slots: [Option<(K, V)>; CAP], len: usize }
    impl<K, V> Default for HashMap<K, V> { fn default() -> Self { Self { slots: empty(), len: 0 } } }
    impl<K, V> HashMap<K, V> {
        pub fn new() -> Self { Self::default() }
        pub fn with_capacity(_c: usize) -> Self { Self::default() }
        pub fn len(&self) -> usize { self.len }
        pub fn is_empty(&self) -> bool { self.len == 0 }
        pub fn iter(&self) -> HIter<'_, K, V> { HIter { map: self, start: any_rot(self.len), n: 0 } }
        pub fn keys(&self) -> hash_map::Keys<'_, K, V> { hash_map::Keys(self.iter()) }
        pub fn values(&self) -> hash_map::Values<'_, K, V> { hash_map::Values(self.iter()) }
        pub fn clear(&mut self) { let mut i = 0; while i < CAP { self.slots[i] = None; i += 1; } self.len = 0; }
    }
    /// `std::collections::hash_map::{Iter, IntoIter, Keys, Values}` as named types
    pub mod hash_map {
        pub type Iter<'a, K, V> = super::HIter<'a, K, V>;
        pub type IntoIter<K, V> = super::HIntoIter<K, V>;
        pub struct Keys<'a, K, V>(pub(super) super::HIter<'a, K, V>);
        impl<'a, K, V> Iterator for Keys<'a, K, V> { type Item = &'a K; fn next(&mut self) -> Option<&'a K> { self.0.next().map(|(k, _)| k) } }
        pub struct Values<'a, K, V>(pub(super) super::HIter<'a, K, V>);
        impl<'a, K, V> Iterator for Values<'a, K, V> { type Item = &'a V; fn next(&mut self) -> Option<&'a V> { self.0.next().map(|(_, v)| v) } }
    }
    impl<K: Eq, V> Extend<(K, V)> for HashMap<K, V> {
        fn extend<I: IntoIterator<Item = (K, V)>>(&mut self, it: I) { for (k, v) in it { self.insert(k, v); } }
    }
    impl<K: Eq, V> HashMap<K, V> {
        fn find(&self, k: &K) -> Option<usize> {
            let mut i = 0;
            while i < CAP { if i < self.len { if let Some((kk, _)) = &self.slots[i] { if kk == k { return Some(i); } } } i += 1; }
            None
        }
        pub fn get(&self, k: &K) -> Option<&V> {
            let mut i = 0;
            while i < CAP { if i < self.len { if let Some((kk, v)) = &self.slots[i] { if kk == k { return Some(v); } } } i += 1; }
            None
        }
        pub fn get_mut(&mut self, k: &K) -> Option<&mut V> {
            let len = self.len;
            let mut i = 0;
            while i < CAP {
                if i < len { if let Some((kk, _)) = &self.slots[i] { if kk == k { return self.slots[i].as_mut().map(|p| &mut p.1); } } }
                i += 1;
            }
            None
        }
        pub fn contains_key(&self, k: &K) -> bool { self.get(k).is_some() }
        fn push(&mut self, k: K, v: V) -> usize {
            assert!(self.len < CAP, "model map capacity exceeded (bound of the harness)");
            let i = self.len;
            put(&mut self.slots, i, (k, v));
            self.len += 1;
            i
        }
        pub fn insert(&mut self, k: K, v: V) -> Option<V> {
            let len = self.len;
            let mut i = 0;
            while i < CAP {
                if i < len {
                    let hit = match &self.slots[i] { Some((kk, _)) => *kk == k, None => false };
                    if hit { let old = self.slots[i].take(); self.slots[i] = Some((k, v)); return old.map(|p| p.1); }
                }
                i += 1;
            }
            self.push(k, v);
            None
        }
        pub fn remove(&mut self, k: &K) -> Option<V> {
            match self.find(k) {
                Some(i) => { let old = swap_remove(&mut self.slots, self.len, i); self.len -= 1; old.map(|p| p.1) }
                None => None,
            }
        }
        pub fn entry(&mut self, k: K) -> HEntry<'_, K, V> { HEntry { map: self, key: k } }
    }
    pub struct HEntry<'a, K, V> { map: &'a mut HashMap<K, V>, key: K }
    impl<'a, K: Eq, V> HEntry<'a, K, V> {
        pub fn and_modify<F: FnOnce(&mut V)>(self, f: F) -> Self { if let Some(v) = self.map.get_mut(&self.key) { f(v); } self }
        pub fn or_insert_with<F: FnOnce() -> V>(self, f: F) -> &'a mut V {
            let i = match self.map.find(&self.key) { Some(i) => i, None => self.map.push(self.key, f()) };
            &mut at_mut(&mut self.map.slots, i).unwrap().1
        }
        pub fn or_insert(self, v: V) -> &'a mut V { self.or_insert_with(move || v) }
        pub fn or_default(self) -> &'a mut V where V: Default { self.or_insert_with(V::default) }
    }
    fn rot(start: usize, n: usize, len: usize) -> usize { let idx = start + n; if idx >= len { idx - len } else { idx } }
    pub struct HIter<'a, K, V> { map: &'a HashMap<K, V>, start: usize, n: usize }
    impl<'a, K, V> Iterator for HIter<'a, K, V> {
        type Item = (&'a K, &'a V);
        fn next(&mut self) -> Option<Self::Item> {
            let len = self.map.len;
            if self.n >= len { return None; }
            let idx = rot(self.start, self.n, len);
            self.n += 1;
            at(&self.map.slots, idx).map(|p| (&p.0, &p.1))
        }
        fn size_hint(&self) -> (usize, Option<usize>) { let n = self.map.len - self.n; (n, Some(n)) }
    }
    impl<'a, K, V> IntoIterator for &'a HashMap<K, V> { type Item = (&'a K, &'a V); type IntoIter = HIter<'a, K, V>; fn into_iter(self) -> HIter<'a, K, V> { self.iter() } }
    pub struct HIntoIter<K, V> { slots: [Option<(K, V)>; CAP], len: usize, start: usize, n: usize }
    impl<K, V> Iterator for HIntoIter<K, V> {
        type Item = (K, V);
        fn next(&mut self) -> Option<(K, V)> {
            if self.n >= self.len { return None; }
            let idx = rot(self.start, self.n, self.len);
            self.n += 1;
            take_at(&mut self.slots, idx)
        }
    }
    impl<K, V> IntoIterator for HashMap<K, V> { type Item = (K, V); type IntoIter = HIntoIter<K, V>; fn into_iter(self) -> HIntoIter<K, V> { let start = any_rot(self.len); HIntoIter { slots: self.slots, len: self.len, start, n: 0 } } }
    impl<K: Eq, V> FromIterator<(K, V)> for HashMap<K, V> { fn from_iter<I: IntoIterator<Item = (K, V)>>(it: I) -> Self { let mut m = Self::default(); for (k, v) in it { m.insert(k, v); } m } }
    impl<K: Eq, V: PartialEq> PartialEq for HashMap<K, V> {
        fn eq(&self, o: &Self) -> bool {
            if self.len != o.len { return false; }
            let mut i = 0;
            while i < CAP {
                if i < self.len { let (k, v) = self.slots[i].as_ref().unwrap(); if o.get(k) != Some(v) { return false; } }
                i += 1;
            }
            true
        }
    }
    impl<K: Eq, V: Eq> Eq for HashMap<K, V> {}

    // ------------------------------------------------------------------ HashSet
    #[derive(Clone, Debug)]
    pub struct HashSet<T> { slots: [Option<T>; CAP], len: usize }
    impl<T> Default for HashSet<T> { fn default() -> Self { Self { slots: empty(), len: 0 } } }
    impl<T> HashSet<T> {
        pub fn new() -> Self { Self::default() }
        pub fn with_capacity(_c: usize) -> Self { Self::default() }
        pub fn len(&self) -> usize { self.len }
        pub fn is_empty(&self) -> bool { self.len == 0 }
        pub fn iter(&self) -> SIter<'_, T> { SIter { set: self, start: any_rot(self.len), n: 0 } }
        pub fn clear(&mut self) { let mut i = 0; while i < CAP { self.slots[i] = None; i += 1; } self.len = 0; }
    }
    impl<T: Eq> HashSet<T> {
        fn find(&self, t: &T) -> Option<usize> {
            let mut i = 0;
            while i < CAP { if i < self.len && self.slots[i].as_ref() == Some(t) { return Some(i); } i += 1; }
            None
        }
        pub fn contains(&self, t: &T) -> bool { self.find(t).is_some() }
        pub fn insert(&mut self, t: T) -> bool {
            if self.contains(&t) { return false; }
            assert!(self.len < CAP, "model set capacity exceeded (bound of the harness)");
            let i = self.len;
            put(&mut self.slots, i, t);
            self.len += 1;
            true
        }
        pub fn remove(&mut self, t: &T) -> bool {
            match self.find(t) {
                Some(i) => { swap_remove(&mut self.slots, self.len, i); self.len -= 1; true }
                None => false,
            }
        }
    }
    pub struct SIter<'a, T> { set: &'a HashSet<T>, start: usize, n: usize }
    impl<'a, T> Iterator for SIter<'a, T> {
        type Item = &'a T;
        fn next(&mut self) -> Option<&'a T> {
            let len = self.set.len;
            if self.n >= len { return None; }
            let idx = rot(self.start, self.n, len);
            self.n += 1;
            at(&self.set.slots, idx)
        }
        fn size_hint(&self) -> (usize, Option<usize>) { let n = self.set.len - self.n; (n, Some(n)) }
    }
    impl<'a, T> IntoIterator for &'a HashSet<T> { type Item = &'a T; type IntoIter = SIter<'a, T>; fn into_iter(self) -> SIter<'a, T> { self.iter() } }
    pub struct SIntoIter<T> { slots: [Option<T>; CAP], len: usize, start: usize, n: usize }
    impl<T> Iterator for SIntoIter<T> {
        type Item = T;
        fn next(&mut self) -> Option<T> {
            if self.n >= self.len { return None; }
            let idx = rot(self.start, self.n, self.len);
            self.n += 1;
            take_at(&mut self.slots, idx)
        }
    }
    impl<T> IntoIterator for HashSet<T> { type Item = T; type IntoIter = SIntoIter<T>; fn into_iter(self) -> SIntoIter<T> { let start = any_rot(self.len); SIntoIter { slots: self.slots, len: self.len, start, n: 0 } } }
    impl<T: Eq> FromIterator<T> for HashSet<T> { fn from_iter<I: IntoIterator<Item = T>>(iter: I) -> Self { let mut s = HashSet::new(); for t in iter { s.insert(t); } s } }
    impl<T: Eq> Extend<T> for HashSet<T> { fn extend<I: IntoIterator<Item = T>>(&mut self, it: I) { for t in it { self.insert(t); } } }
    impl<T: Eq> PartialEq for HashSet<T> {
        fn eq(&self, o: &Self) -> bool {
            if self.len != o.len { return false; }
            let mut i = 0;
            while i < CAP { if i < self.len && !o.contains(self.slots[i].as_ref().unwrap()) { return false; } i += 1; }
            true
        }
    }
    impl<T: Eq> Eq for HashSet<T> {}

    // ------------------------------------------------------------------ VecDeque
    // All slot accesses use CONCRETE indices guarded by (symbolic) conditions: a symbolic array index
    // into an array of large elements is what makes CBMC's formula explode.
    #[derive(Clone, Debug)]
    pub struct VecDeque<T> { slots: [Option<T>; CAP], len: usize, cap: usize }
    impl<T> Default for VecDeque<T> { fn default() -> Self { Self { slots: empty(), len: 0, cap: 0 } } }
    impl<T> VecDeque<T> {
        pub fn new() -> Self { Self::default() }
        /// std guarantees `capacity() >= c`; the model returns exactly `c` (true for the pinned toolchain
        /// for the small capacities in the bound; stated as an assumption).
        pub fn with_capacity(c: usize) -> Self { Self { slots: empty(), len: 0, cap: c } }
        pub fn capacity(&self) -> usize { self.cap }
        pub fn len(&self) -> usize { self.len }
        pub fn is_empty(&self) -> bool { self.len == 0 }
        pub fn pop_front(&mut self) -> Option<T> {
            if self.len == 0 { return None; }
            let out = self.slots[0].take();
            let mut i = 1;
            while i < CAP { if i < self.len { self.slots[i - 1] = self.slots[i].take(); } i += 1; }
            self.len -= 1;
            out
        }
        pub fn push_back(&mut self, t: T) {
            assert!(self.len < CAP, "model deque capacity exceeded (bound of the harness)");
            if self.len >= self.cap { self.cap = self.len + 1; }
            let mut t = Some(t);
            let mut i = 0;
            while i < CAP { if i == self.len { self.slots[i] = t.take(); } i += 1; }
            self.len += 1;
        }
        pub fn push_front(&mut self, t: T) {
            assert!(self.len < CAP, "model deque capacity exceeded (bound of the harness)");
            if self.len >= self.cap { self.cap = self.len + 1; }
            let mut j = CAP - 1;
            while j > 0 { if j <= self.len { self.slots[j] = self.slots[j - 1].take(); } j -= 1; }
            self.slots[0] = Some(t);
            self.len += 1;
        }
        pub fn truncate(&mut self, n: usize) {
            let mut k = 0;
            while k < CAP { if k >= n && k < self.len { self.slots[k] = None; } k += 1; }
            if self.len > n { self.len = n; }
        }
        pub fn get(&self, i: usize) -> Option<&T> {
            if i >= self.len { return None; }
            let mut k = 0;
            while k < CAP { if k == i { return self.slots[k].as_ref(); } k += 1; }
            None
        }
        pub fn get_mut(&mut self, i: usize) -> Option<&mut T> {
            if i >= self.len { return None; }
            let mut k = 0;
            while k < CAP { if k == i { return self.slots[k].as_mut(); } k += 1; }
            None
        }
        pub fn front(&self) -> Option<&T> { if self.len == 0 { None } else { self.slots[0].as_ref() } }
        pub fn iter(&self) -> DIter<'_, T> { DIter { d: self, n: 0 } }
    }
    pub struct DIter<'a, T> { d: &'a VecDeque<T>, n: usize }
    impl<'a, T> Iterator for DIter<'a, T> {
        type Item = &'a T;
        fn next(&mut self) -> Option<&'a T> { if self.n >= self.d.len { return None; } let i = self.n; self.n += 1; self.d.get(i) }
        fn size_hint(&self) -> (usize, Option<usize>) { let n = self.d.len - self.n; (n, Some(n)) }
    }

    // ------------------------------------------------------------------ serde (only where the file under test derives it)
    #[cfg(feature = "model_serde")]
    mod ser {
        use super::*;
        use serde::{Deserialize, Serialize};
        impl<K: Serialize, V: Serialize> Serialize for BTreeMap<K, V> { fn serialize<S: serde::Serializer>(&self, s: S) -> Result<S::Ok, S::Error> { s.collect_map(self.into_iter()) } }
        impl<'de, K: Ord + Deserialize<'de>, V: Deserialize<'de>> Deserialize<'de> for BTreeMap<K, V> { fn deserialize<D: serde::Deserializer<'de>>(_d: D) -> Result<Self, D::Error> { unimplemented!("model map is never decoded in a harness") } }
        impl<K: Serialize, V: Serialize> Serialize for HashMap<K, V> { fn serialize<S: serde::Serializer>(&self, s: S) -> Result<S::Ok, S::Error> { s.collect_map(self.iter()) } }
        impl<'de, K, V> Deserialize<'de> for HashMap<K, V> { fn deserialize<D: serde::Deserializer<'de>>(_d: D) -> Result<Self, D::Error> { unimplemented!("model map is never decoded in a harness") } }
        impl<T: Serialize> Serialize for HashSet<T> { fn serialize<S: serde::Serializer>(&self, s: S) -> Result<S::Ok, S::Error> { s.collect_seq(self.iter()) } }
        impl<'de, T: Eq + Deserialize<'de>> Deserialize<'de> for HashSet<T> {
            fn deserialize<D: serde::Deserializer<'de>>(d: D) -> Result<Self, D::Error> {
                // decode like std does: a sequence, inserted element by element
                let v: Vec<T> = Vec::deserialize(d)?;
                Ok(v.into_iter().collect())
            }
        }
        impl<T: Serialize> Serialize for VecDeque<T> { fn serialize<S: serde::Serializer>(&self, s: S) -> Result<S::Ok, S::Error> { s.collect_seq(self.iter()) } }
        impl<'de, T: Deserialize<'de>> Deserialize<'de> for VecDeque<T> { fn deserialize<D: serde::Deserializer<'de>>(_d: D) -> Result<Self, D::Error> { unimplemented!("model deque is never decoded in a harness") } }
    }
}
