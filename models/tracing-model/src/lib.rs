//! No-op logging macros.
#[macro_export] macro_rules! error { ($($t:tt)*) => { () } }
#[macro_export] macro_rules! warn { ($($t:tt)*) => { () } }
#[macro_export] macro_rules! info { ($($t:tt)*) => { () } }
#[macro_export] macro_rules! debug { ($($t:tt)*) => { () } }
#[macro_export] macro_rules! trace { ($($t:tt)*) => { () } }
