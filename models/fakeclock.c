/* LD_PRELOAD shim for native replays: clock_gettime(CLOCK_REALTIME) answers from the environment
 * variable VERIF_FAKE_REALTIME="<secs> <nanos>" when it is set, else the real clock. */
#define _GNU_SOURCE
#include <dlfcn.h>
#include <stdlib.h>
#include <stdio.h>
#include <time.h>
#include <sys/time.h>

typedef int (*cg_t)(clockid_t, struct timespec *);

int clock_gettime(clockid_t id, struct timespec *ts) {
    static cg_t real = 0;
    if (!real) real = (cg_t)dlsym(RTLD_NEXT, "clock_gettime");
    if (id == CLOCK_REALTIME) {
        const char *v = getenv("VERIF_FAKE_REALTIME");
        if (v) {
            unsigned long long s = 0; unsigned long n = 0;
            if (sscanf(v, "%llu %lu", &s, &n) >= 1) { ts->tv_sec = (time_t)s; ts->tv_nsec = (long)n; return 0; }
        }
    }
    return real(id, ts);
}
