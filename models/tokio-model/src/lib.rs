//! Minimal single-threaded contract model of the tokio::sync primitives used by the units under
//! test. Every operation on a primitive is a potential context-switch point (`switch_point`): the
//! harness installs a hook there and runs "the other thread" at a solver-chosen point. Every explored
//! schedule is a real schedule of the two threads (sequentialisation at synchronisation operations),
//! so a counterexample is never an artefact of the model; completeness is limited to switches at
//! synchronisation operations, which is complete for data only touched under these primitives.
//!
//! Contracts implemented (tokio docs):
//!  * Notify: a `Notified` future observes every `notify_waiters()` issued after its creation, even
//!    before its first poll; `notify_one` stores one permit.
//!  * Mutex/RwLock: mutual exclusion; `lock()` is pending while held.
//!  * select!: polls its branches starting from an arbitrary one, drops the losers before the handler.
#![allow(unused)]
pub mod sched {
    use std::cell::Cell;
    thread_local! {}
    pub static mut HOOK: Option<fn()> = None;
    /// Called at every synchronisation operation: lets the harness run "the other thread".
    pub fn switch_point() {
        unsafe { if let Some(h) = HOOK { h(); } }
    }
}
pub mod sync {
    use std::cell::{Cell, RefCell, RefMut, Ref, UnsafeCell};
    use std::future::Future;
    use std::ops::{Deref, DerefMut};
    use std::pin::Pin;
    use std::task::{Context, Poll};
    use crate::sched::switch_point;

    #[derive(Debug, Default)]
    pub struct Notify { epoch: Cell<usize>, permit: Cell<bool> }
    pub struct Notified<'a> { n: &'a Notify, seen: usize }
    impl Notify {
        pub fn new() -> Self { Self { epoch: Cell::new(0), permit: Cell::new(false) } }
        /// Contract: the returned future observes every notify_waiters() call made after this point.
        pub fn notified(&self) -> Notified<'_> { switch_point(); Notified { n: self, seen: self.epoch.get() } }
        pub fn notify_waiters(&self) { switch_point(); self.epoch.set(self.epoch.get() + 1); }
        pub fn notify_one(&self) { switch_point(); self.permit.set(true); }
    }
    impl<'a> Future for Notified<'a> {
        type Output = ();
        fn poll(self: Pin<&mut Self>, _cx: &mut Context<'_>) -> Poll<()> {
            switch_point();
            if self.n.epoch.get() != self.seen { return Poll::Ready(()); }
            if self.n.permit.get() { self.n.permit.set(false); return Poll::Ready(()); }
            Poll::Pending
        }
    }

    #[derive(Debug, Default)]
    pub struct Mutex<T> { locked: Cell<bool>, v: UnsafeCell<T> }
    pub struct MutexGuard<'a, T> { m: &'a Mutex<T> }
    pub struct LockFut<'a, T> { m: &'a Mutex<T> }
    impl<T> Mutex<T> {
        pub fn new(v: T) -> Self { Self { locked: Cell::new(false), v: UnsafeCell::new(v) } }
        pub fn lock(&self) -> LockFut<'_, T> { LockFut { m: self } }
    }
    impl<'a, T> Future for LockFut<'a, T> {
        type Output = MutexGuard<'a, T>;
        fn poll(self: Pin<&mut Self>, _cx: &mut Context<'_>) -> Poll<Self::Output> {
            switch_point();
            if self.m.locked.get() { return Poll::Pending; }
            self.m.locked.set(true);
            Poll::Ready(MutexGuard { m: self.m })
        }
    }
    impl<'a, T> Deref for MutexGuard<'a, T> { type Target = T; fn deref(&self) -> &T { unsafe { &*self.m.v.get() } } }
    impl<'a, T> DerefMut for MutexGuard<'a, T> { fn deref_mut(&mut self) -> &mut T { unsafe { &mut *self.m.v.get() } } }
    impl<'a, T> Drop for MutexGuard<'a, T> { fn drop(&mut self) { self.m.locked.set(false); switch_point(); } }

    // RwLock: same exclusive model (sufficient for single writer/reader at a time in harnesses).
    #[derive(Debug, Default)]
    pub struct RwLock<T> { inner: Mutex<T> }
    impl<T> RwLock<T> {
        pub fn new(v: T) -> Self { Self { inner: Mutex::new(v) } }
        pub fn read(&self) -> LockFut<'_, T> { self.inner.lock() }
        pub fn write(&self) -> LockFut<'_, T> { self.inner.lock() }
    }
}

pub mod task {
    use std::future::Future;
    use std::pin::Pin;
    use std::task::{Context, Poll};
    pub struct YieldNow(bool);
    impl Future for YieldNow { type Output = ();
        fn poll(mut self: Pin<&mut Self>, cx: &mut Context<'_>) -> Poll<()> { if self.0 { Poll::Ready(()) } else { self.0 = true; cx.waker().wake_by_ref(); Poll::Pending } } }
    pub fn yield_now() -> YieldNow { YieldNow(false) }
}

pub mod macros {
    use std::future::Future;
    use std::pin::Pin;
    use std::task::{Context, Poll};
    pub enum Either<A, B> { A(A), B(B) }
    pub struct Select2<'a, F1: ?Sized, F2: ?Sized> { pub f1: Pin<&'a mut F1>, pub f2: Pin<&'a mut F2> }
    /// tokio's select! starts polling at a random branch: the harness supplies the choice (a symbolic
    /// bool under the solver, a script value in native replays).
    pub static mut CHOICE: Option<fn() -> bool> = None;
    fn start_with_second() -> bool { unsafe { match CHOICE { Some(f) => f(), None => false } } }
    impl<'a, F1: Future + ?Sized, F2: Future + ?Sized> Future for Select2<'a, F1, F2> {
        type Output = Either<F1::Output, F2::Output>;
        fn poll(mut self: Pin<&mut Self>, cx: &mut Context<'_>) -> Poll<Self::Output> {
            let this = &mut *self;
            // tokio polls branches starting at a random index: symbolic under the solver
            if start_with_second() {
                if let Poll::Ready(v) = this.f2.as_mut().poll(cx) { return Poll::Ready(Either::B(v)); }
                if let Poll::Ready(v) = this.f1.as_mut().poll(cx) { return Poll::Ready(Either::A(v)); }
            } else {
                if let Poll::Ready(v) = this.f1.as_mut().poll(cx) { return Poll::Ready(Either::A(v)); }
                if let Poll::Ready(v) = this.f2.as_mut().poll(cx) { return Poll::Ready(Either::B(v)); }
            }
            Poll::Pending
        }
    }
}

#[macro_export]
macro_rules! select {
    ($p1:pat = $f1:expr => $b1:block $(,)? $p2:pat = $f2:expr => $b2:block $(,)?) => {{
        let __out = {
            let mut __f1 = ::std::pin::pin!($f1);
            let mut __f2 = ::std::pin::pin!($f2);
            $crate::macros::Select2 { f1: __f1.as_mut(), f2: __f2.as_mut() }.await
        };
        match __out { $crate::macros::Either::A($p1) => $b1, $crate::macros::Either::B($p2) => $b2 }
    }};
}
