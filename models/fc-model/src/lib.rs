//! Contract model of futures_channel::mpsc::Sender as used for event reporting: an always-ready,
//! never-closed sink that records what was sent (capacity 8).
pub mod mpsc {
    use std::cell::RefCell;
    use std::pin::Pin;
    use std::rc::Rc;
    use std::task::{Context, Poll};
    #[derive(Clone, Debug, PartialEq, Eq)]
    pub struct SendError;
    impl std::fmt::Display for SendError { fn fmt(&self, _f: &mut std::fmt::Formatter<'_>) -> std::fmt::Result { Ok(()) } }
    impl std::error::Error for SendError {}
    pub struct Sender<T> { pub log: Rc<RefCell<(usize, [Option<T>; 8])>> }
    impl<T> Clone for Sender<T> { fn clone(&self) -> Self { Self { log: self.log.clone() } } }
    impl<T> Sender<T> { pub fn new_model() -> Self { Self { log: Rc::new(RefCell::new((0, [None, None, None, None, None, None, None, None]))) } } }
    impl<T> futures_sink::Sink<T> for Sender<T> {
        type Error = SendError;
        fn poll_ready(self: Pin<&mut Self>, _cx: &mut Context<'_>) -> Poll<Result<(), SendError>> { Poll::Ready(Ok(())) }
        fn start_send(self: Pin<&mut Self>, item: T) -> Result<(), SendError> { let mut l = self.log.borrow_mut(); let n = l.0; if n < 8 { l.1[n] = Some(item); l.0 = n + 1; } Ok(()) }
        fn poll_flush(self: Pin<&mut Self>, _cx: &mut Context<'_>) -> Poll<Result<(), SendError>> { Poll::Ready(Ok(())) }
        fn poll_close(self: Pin<&mut Self>, _cx: &mut Context<'_>) -> Poll<Result<(), SendError>> { Poll::Ready(Ok(())) }
    }
}
