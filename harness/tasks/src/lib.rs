//! Harness crate "tasks" (style S2): p2panda/src/processor/tasks.rs included verbatim; the crate name
//! `tokio` resolves to the contract model (models/tokio-model); std HashMap -> model map.
//! Serves C14: every pipeline submission completes with its own result.
#![allow(unused, static_mut_refs)]
pub const MODEL_CAP: usize = 1;
#[macro_use]
pub mod sym;
#[path = "collections.rs"]
pub mod verif_models;

pub mod unit {
    include!("staged/tasks.rs");

    pub mod proofs {
        use super::*;
        use crate::sym;
        use std::future::Future;
        use std::pin::Pin;
        use std::task::{Context, Poll, Waker};

        fn poll_once<F: Future + ?Sized>(f: Pin<&mut F>) -> Poll<F::Output> {
            let waker = Waker::noop();
            let mut cx = Context::from_waker(&waker);
            f.poll(&mut cx)
        }

        // ------------------------------------------------------------------------------------
        // "The other thread" = the pipeline thread: it runs mark_as_done(RESULT) to completion at the
        // SWITCH_AT-th synchronisation operation of the submitting task (or afterwards).
        // ------------------------------------------------------------------------------------
        const RESULT: u8 = 42;
        static mut TASK: Option<Task<u8, u8>> = None;
        static mut TRACKER: Option<TaskTracker<u8, u8>> = None;
        static mut SWITCH_AT: u8 = 0;
        static mut COUNTER: u8 = 0;
        static mut DONE: bool = false;
        static mut IN_OTHER: bool = false;
        static mut RAN_INSIDE: bool = false;

        fn pipeline_thread() {
            unsafe {
                if IN_OTHER || DONE { return; }
                let c = COUNTER;
                COUNTER += 1;
                if c != SWITCH_AT { return; }
                IN_OTHER = true;
                let saved = tokio::sched::HOOK.take(); // no nested switches while the pipeline thread runs
                let ready = if let Some(tr) = (*std::ptr::addr_of!(TRACKER)).as_ref() {
                    let mut fut = std::pin::pin!(tr.mark_as_done(1, RESULT));
                    poll_once(fut.as_mut()).is_ready()
                } else {
                    let task = (*std::ptr::addr_of!(TASK)).as_ref().unwrap();
                    let mut fut = std::pin::pin!(task.mark_as_done(RESULT));
                    poll_once(fut.as_mut()).is_ready()
                };
                // blocked on a lock the submitter holds: this switch point is not a schedule in which the
                // pipeline thread completes here; it runs after the submitter's poll instead
                if ready { DONE = true; RAN_INSIDE = true; }
                tokio::sched::HOOK = saved;
                IN_OTHER = false;
            }
        }

        fn reset(switch_at: u8) {
            unsafe {
                TASK = None; TRACKER = None; SWITCH_AT = switch_at; COUNTER = 0; DONE = false; IN_OTHER = false; RAN_INSIDE = false;
            }
        }

        /// after the submitter's first poll: if the pipeline thread has not run yet, it runs now
        fn pipeline_thread_runs_now_if_not_yet() {
            unsafe {
                tokio::sched::HOOK = None;
                if !DONE {
                    if let Some(tr) = (*std::ptr::addr_of!(TRACKER)).as_ref() {
                        let mut m = std::pin::pin!(tr.mark_as_done(1, RESULT));
                        assert!(poll_once(m.as_mut()).is_ready(), "model: nobody holds the lock between polls");
                    } else {
                        let task = (*std::ptr::addr_of!(TASK)).as_ref().unwrap();
                        let mut m = std::pin::pin!(task.mark_as_done(RESULT));
                        assert!(poll_once(m.as_mut()).is_ready(), "model: nobody holds the lock between polls");
                    }
                    DONE = true;
                }
            }
        }

        /// Task level: `ready()` against `mark_as_done()` at every switch point.
        #[cfg_attr(kani, kani::proof)]
        #[cfg_attr(kani, kani::unwind(6))]
        pub fn ready_never_misses_done() {
            // the submitter's first poll has 4 synchronisation operations; values beyond mean "afterwards"
            let switch_at = sym::any_below(6);
            reset(switch_at);
            let task: Task<u8, u8> = Task::new(1);
            unsafe { TASK = Some(task.clone()); tokio::sched::HOOK = Some(pipeline_thread); }
            let mut fut = std::pin::pin!(task.ready());
            let r1 = poll_once(fut.as_mut());
            pipeline_thread_runs_now_if_not_yet();
            witness!(unsafe { RAN_INSIDE }, "witness: the pipeline thread completed inside the submitter's poll");
            witness!(r1.is_pending(), "witness: the submitter had to wait");
            let r = match r1 { Poll::Ready(v) => Poll::Ready(v), Poll::Pending => poll_once(fut.as_mut()) };
            vassert!(r.is_ready(), "C14.returns: once the pipeline marked the operation as done the waiting submission returns (no lost wake-up)");
            vassert!(r == Poll::Ready(RESULT), "C14.own-result: the submission returns the result marked for its operation");
        }

        /// Two submitters waiting on the same (de-duplicated) task.
        #[cfg_attr(kani, kani::proof)]
        #[cfg_attr(kani, kani::unwind(6))]
        pub fn two_waiters_both_return() {
            let switch_at = sym::any_below(10);
            reset(switch_at);
            let task: Task<u8, u8> = Task::new(1);
            unsafe { TASK = Some(task.clone()); tokio::sched::HOOK = Some(pipeline_thread); }
            let t2 = task.clone();
            let mut f1 = std::pin::pin!(task.ready());
            let mut f2 = std::pin::pin!(t2.ready());
            let a = poll_once(f1.as_mut());
            let b = poll_once(f2.as_mut());
            pipeline_thread_runs_now_if_not_yet();
            let a = match a { Poll::Ready(v) => Poll::Ready(v), Poll::Pending => poll_once(f1.as_mut()) };
            let b = match b { Poll::Ready(v) => Poll::Ready(v), Poll::Pending => poll_once(f2.as_mut()) };
            witness!(unsafe { RAN_INSIDE }, "witness: the pipeline thread ran between the two submitters' steps");
            vassert!(a == Poll::Ready(RESULT), "C14.returns-first: the first of two concurrent submissions of the same operation returns its result");
            vassert!(b == Poll::Ready(RESULT), "C14.returns-second: the second of two concurrent submissions of the same operation returns its result");
        }

        /// Tracker level: submit = track(id) (completed before the operation is handed to the
        /// pipeline), then ready(); the pipeline thread calls TaskTracker::mark_as_done(id, result).
        #[cfg_attr(kani, kani::proof)]
        #[cfg_attr(kani, kani::unwind(6))]
        pub fn tracked_submission_completes() {
            // the submitter's first poll has 4 synchronisation operations; values beyond mean "afterwards"
            let switch_at = sym::any_below(6);
            reset(switch_at);
            let tracker: TaskTracker<u8, u8> = TaskTracker::new();
            // track (hook not yet installed: the pipeline cannot finish an operation it has not received)
            let task = {
                let mut t = std::pin::pin!(tracker.track(1));
                match poll_once(t.as_mut()) { Poll::Ready(t) => t, Poll::Pending => { sym::assume(false); unreachable!() } }
            };
            unsafe { TRACKER = Some(tracker); tokio::sched::HOOK = Some(pipeline_thread); }
            let r = {
                let mut fut = std::pin::pin!(task.ready());
                let r1 = poll_once(fut.as_mut());
                pipeline_thread_runs_now_if_not_yet();
                match r1 { Poll::Ready(v) => Poll::Ready(v), Poll::Pending => poll_once(fut.as_mut()) }
            };
            witness!(unsafe { RAN_INSIDE }, "witness: the pipeline thread completed inside the submitter's poll");
            vassert!(r == Poll::Ready(RESULT), "C14.tracked-returns: a tracked submission returns its operation's result under every interleaving with the pipeline thread");
            // the finished task is gone from the tracker
            let tracker = unsafe { (*std::ptr::addr_of!(TRACKER)).as_ref().unwrap() };
            let mut l = std::pin::pin!(tracker.len());
            vassert!(poll_once(l.as_mut()) == Poll::Ready(0), "C14.tracker-clean: a finished task is removed from the tracker");
            std::mem::forget(task);
        }

        /// A later submission of the same operation (after the first one finished and was removed)
        /// gets a fresh task and completes with the second processing result.
        #[cfg_attr(kani, kani::proof)]
        #[cfg_attr(kani, kani::unwind(6))]
        pub fn resubmission_after_completion_completes() {
            reset(0);
            let tracker: TaskTracker<u8, u8> = TaskTracker::new();
            let first = { let mut t = std::pin::pin!(tracker.track(1)); match poll_once(t.as_mut()) { Poll::Ready(t) => t, _ => unreachable!() } };
            let dup = { let mut t = std::pin::pin!(tracker.track(1)); match poll_once(t.as_mut()) { Poll::Ready(t) => t, _ => unreachable!() } };
            { let mut m = std::pin::pin!(tracker.mark_as_done(1, 7)); assert!(poll_once(m.as_mut()).is_ready()); }
            let second = { let mut t = std::pin::pin!(tracker.track(1)); match poll_once(t.as_mut()) { Poll::Ready(t) => t, _ => unreachable!() } };
            let v2 = sym::any_u8();
            { let mut m = std::pin::pin!(tracker.mark_as_done(1, v2)); assert!(poll_once(m.as_mut()).is_ready()); }
            let mut a = std::pin::pin!(first.ready());
            let mut d = std::pin::pin!(dup.ready());
            let mut b = std::pin::pin!(second.ready());
            vassert!(poll_once(a.as_mut()) == Poll::Ready(7), "C14.first-result: the first submission gets the first processing result");
            vassert!(poll_once(d.as_mut()) == Poll::Ready(7), "C14.dedup-result: a duplicate submission tracked before completion shares that result");
            vassert!(poll_once(b.as_mut()) == Poll::Ready(v2), "C14.resubmit-result: a submission after completion gets the result of its own processing");
        }

        // ------------------------------------------------------------------------------------
        // Two submitters track the SAME operation id concurrently: submitter B runs its whole track()
        // at a solver-chosen synchronisation point of submitter A's track(). Both must end up waiting
        // on a task that the pipeline's single mark_as_done(id) completes.
        // ------------------------------------------------------------------------------------
        static mut B_TASK: Option<Task<u8, u8>> = None;
        fn submitter_b() {
            unsafe {
                if IN_OTHER || DONE { return; }
                let c = COUNTER;
                COUNTER += 1;
                if c != SWITCH_AT { return; }
                IN_OTHER = true;
                let saved = tokio::sched::HOOK.take();
                let tr = (*std::ptr::addr_of!(TRACKER)).as_ref().unwrap();
                let mut fut = std::pin::pin!(tr.track(1));
                if let Poll::Ready(t) = poll_once(fut.as_mut()) { B_TASK = Some(t); DONE = true; RAN_INSIDE = true; }
                tokio::sched::HOOK = saved;
                IN_OTHER = false;
            }
        }

        #[cfg_attr(kani, kani::proof)]
        #[cfg_attr(kani, kani::unwind(6))]
        pub fn concurrent_track_of_same_operation() {
            let switch_at = sym::any_below(6);
            reset(switch_at);
            unsafe { B_TASK = None; TRACKER = Some(TaskTracker::new()); tokio::sched::HOOK = Some(submitter_b); }
            let tracker = unsafe { (*std::ptr::addr_of!(TRACKER)).as_ref().unwrap() };
            let a_task = {
                let mut fut = std::pin::pin!(tracker.track(1));
                let mut r = poll_once(fut.as_mut());
                if r.is_pending() { r = poll_once(fut.as_mut()); }
                match r { Poll::Ready(t) => t, Poll::Pending => { sym::assume(false); unreachable!() } }
            };
            unsafe { tokio::sched::HOOK = None; }
            // B tracks now if it did not get scheduled inside A's track()
            if unsafe { !DONE } {
                let mut fut = std::pin::pin!(tracker.track(1));
                match poll_once(fut.as_mut()) { Poll::Ready(t) => unsafe { B_TASK = Some(t) }, Poll::Pending => { sym::assume(false); } }
            }
            let b_task = unsafe { (*std::ptr::addr_of!(B_TASK)).as_ref().unwrap() };
            witness!(unsafe { RAN_INSIDE }, "witness: the second submitter tracked inside the first submitter's track()");
            // the pipeline finishes the operation once
            { let mut m = std::pin::pin!(tracker.mark_as_done(1, RESULT)); assert!(poll_once(m.as_mut()).is_ready()); }
            let ra = { let mut f = std::pin::pin!(a_task.ready()); poll_once(f.as_mut()) };
            let rb = { let mut f = std::pin::pin!(b_task.ready()); poll_once(f.as_mut()) };
            vassert!(ra == Poll::Ready(RESULT), "C14.concurrent-track-first: with two concurrent submissions of the same operation the first submitter gets the result");
            vassert!(rb == Poll::Ready(RESULT), "C14.concurrent-track-second: with two concurrent submissions of the same operation the second submitter gets the result");
            std::mem::forget(a_task);
        }

        // ------------------------------------------------------------------------------------
        // Roles swapped: the main thread is the pipeline thread running mark_as_done(); the submitter's
        // ready() future is polled ONCE at a solver-chosen synchronisation point inside mark_as_done
        // (e.g. between storing the result and notify_waiters()), or not at all before it completes.
        // ------------------------------------------------------------------------------------
        static mut WAITER_RESULT: Option<u8> = None;
        static mut WAITER_POLLS: u8 = 0;
        static mut WAITER: Option<std::pin::Pin<Box<dyn Future<Output = u8>>>> = None;
        fn submitter_polls_once() {
            unsafe {
                if IN_OTHER { return; }
                let c = COUNTER;
                COUNTER += 1;
                if c != SWITCH_AT { return; }
                IN_OTHER = true;
                let saved = tokio::sched::HOOK.take();
                if let Some(w) = (*std::ptr::addr_of_mut!(WAITER)).as_mut() {
                    WAITER_POLLS += 1;
                    if let Poll::Ready(v) = poll_once(w.as_mut()) { WAITER_RESULT = Some(v); }
                }
                RAN_INSIDE = true;
                tokio::sched::HOOK = saved;
                IN_OTHER = false;
            }
        }

        #[cfg_attr(kani, kani::proof)]
        #[cfg_attr(kani, kani::unwind(6))]
        pub fn waiter_polled_inside_mark_as_done() {
            let switch_at = sym::any_below(5);
            let polled_before = sym::any_bool();
            reset(switch_at);
            let task: &'static Task<u8, u8> = Box::leak(Box::new(Task::new(1)));
            unsafe {
                WAITER_RESULT = None; WAITER_POLLS = 0;
                WAITER = Some(Box::pin(task.ready()));
                // the submitter may already be waiting (polled once, pending) before the pipeline finishes
                if polled_before {
                    let w = (*std::ptr::addr_of_mut!(WAITER)).as_mut().unwrap();
                    if let Poll::Ready(v) = poll_once(w.as_mut()) { WAITER_RESULT = Some(v); }
                }
                tokio::sched::HOOK = Some(submitter_polls_once);
            }
            { let mut m = std::pin::pin!(task.mark_as_done(RESULT)); let r = poll_once(m.as_mut()); if r.is_pending() { let _ = poll_once(m.as_mut()); } }
            unsafe { tokio::sched::HOOK = None; }
            witness!(unsafe { RAN_INSIDE }, "witness: the submitter was polled inside mark_as_done");
            // mark_as_done has completed: the submitter finishes within one more poll
            unsafe {
                if WAITER_RESULT.is_none() {
                    let w = (*std::ptr::addr_of_mut!(WAITER)).as_mut().unwrap();
                    if let Poll::Ready(v) = poll_once(w.as_mut()) { WAITER_RESULT = Some(v); }
                }
                vassert!(WAITER_RESULT == Some(RESULT), "C14.returns-interleaved: a submitter polled at any point inside mark_as_done still returns the marked result once mark_as_done has completed");
                std::mem::forget((*std::ptr::addr_of_mut!(WAITER)).take());
            }
        }

        pub fn dispatch(name: &str) -> bool {
            match name {
                "unit::proofs::waiter_polled_inside_mark_as_done" => waiter_polled_inside_mark_as_done(),
                "unit::proofs::concurrent_track_of_same_operation" => concurrent_track_of_same_operation(),
                "unit::proofs::ready_never_misses_done" => ready_never_misses_done(),
                "unit::proofs::two_waiters_both_return" => two_waiters_both_return(),
                "unit::proofs::tracked_submission_completes" => tracked_submission_completes(),
                "unit::proofs::resubmission_after_completion_completes" => resubmission_after_completion_completes(),
                _ => return false,
            }
            true
        }
    }
}

#[cfg(all(test, not(kani)))]
mod replay_entry {
    #[test]
    fn verif_replay_entry() {
        let name = std::env::var("VERIF_HARNESS").expect("VERIF_HARNESS");
        let script = std::fs::read_to_string(std::env::var("VERIF_SCRIPT").expect("VERIF_SCRIPT")).unwrap();
        crate::sym::script::load(crate::sym::script::parse(&script));
        if !crate::unit::proofs::dispatch(&name) { panic!("unknown harness {name}"); }
        println!("REPLAY-DONE");
    }
}
