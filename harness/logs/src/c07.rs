//! C07 — stream cursors only move forward (cursor half of the property).
//! Real code: `Cursor::{advance, log_height, state}` (p2panda-core/src/cursor.rs).
use crate::c06::{build, NA, NL};
use crate::cursor::Cursor;
use crate::{sym, A};

fn any_heights() -> [[u32; NL]; NA] {
    let mut hs = [[0u32; NL]; NA];
    let mut a = 0;
    while a < NA { let mut l = 0; while l < NL { hs[a][l] = sym::any_u32(); l += 1; } a += 1; }
    hs
}
fn present(shape: u16, a: usize, l: usize) -> bool { shape & (1 << (a * NL + l)) != 0 }

/// One advance from an arbitrary cursor state of the given concrete shape:
/// post = pointwise max(pre, advance); every other log untouched; never decreases.
fn advance_step(shape: u16, ta: usize, tl: usize) {
    let pre = any_heights();
    let h = sym::any_u32();
    let mut cursor = Cursor::new("c", build(shape, &pre));
    cursor.advance(A(ta as u8), tl as u8, h);
    let mut a = 0;
    while a < NA {
        let mut l = 0;
        while l < NL {
            let got = cursor.log_height(&A(a as u8), &(l as u8)).copied();
            let before = if present(shape, a, l) { Some(pre[a][l]) } else { None };
            if a == ta && l == tl {
                let want = match before { Some(b) => Some(if b >= h { b } else { h }), None => Some(h) };
                witness!(before.is_some() && before.unwrap() > h, "witness: advance to a lower height is attempted");
                vassert!(got == want, "C07.max: after an advance the log's height is max(previous, advanced)");
                if let Some(b) = before { vassert!(got.unwrap() >= b, "C07.forward: a cursor never moves backwards"); }
            } else {
                vassert!(got == before, "C07.others-untouched: advancing one log leaves every other log's height unchanged");
            }
            l += 1;
        }
        a += 1;
    }
    std::mem::forget(cursor);
}

/// Two advances in either order give the same state (order independence).
fn commute(shape: u16, a1: usize, l1: usize, a2: usize, l2: usize) {
    let pre = any_heights();
    let h1 = sym::any_u32();
    let h2 = sym::any_u32();
    let mut x = Cursor::new("c", build(shape, &pre));
    let mut y = Cursor::new("c", build(shape, &pre));
    x.advance(A(a1 as u8), l1 as u8, h1);
    x.advance(A(a2 as u8), l2 as u8, h2);
    y.advance(A(a2 as u8), l2 as u8, h2);
    y.advance(A(a1 as u8), l1 as u8, h1);
    let mut a = 0;
    while a < NA {
        let mut l = 0;
        while l < NL {
            vassert!(x.log_height(&A(a as u8), &(l as u8)) == y.log_height(&A(a as u8), &(l as u8)),
                "C07.order-independent: the cursor state does not depend on the order of advances");
            l += 1;
        }
        a += 1;
    }
    vassert!(x.state() == y.state(), "C07.order-independent-state: the whole state vector is equal for both orders");
    std::mem::forget(x);
    std::mem::forget(y);
}

#[cfg_attr(kani, kani::proof)]
#[cfg_attr(kani, kani::unwind(7))]
pub fn advance_is_pointwise_max() {
    // target log (0,1): every presence shape of author 0's logs x author 1 present/absent
    let shapes: [u16; 6] = [0b0000, 0b0001, 0b0010, 0b0011, 0b0111, 0b1111];
    let mut i = 0;
    while i < 6 { advance_step(shapes[i], 0, 1); i += 1; }
    advance_step(0b0011, 1, 0); // new author entry
    advance_step(0b1011, 1, 0);
}

#[cfg_attr(kani, kani::proof)]
#[cfg_attr(kani, kani::unwind(5))]
pub fn advances_commute() {
    commute(0b0000, 0, 0, 0, 0); // same log twice, from empty
    commute(0b0001, 0, 0, 0, 0); // same log twice, existing
    commute(0b0001, 0, 0, 0, 1); // two logs of one author
    commute(0b0001, 0, 0, 1, 0); // two authors
    commute(0b0000, 1, 1, 0, 0); // two new authors (insertion order differs)
}

pub fn dispatch(name: &str) -> bool {
    match name {
        "c07::advance_is_pointwise_max" => advance_is_pointwise_max(),
        "c07::advances_commute" => advances_commute(),
        _ => return false,
    }
    true
}
