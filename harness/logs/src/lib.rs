//! Harness crate "logs" (style S2): p2panda-core/src/logs.rs and cursor.rs are mounted verbatim
//! (staged/), with `std::collections::BTreeMap` redirected to the model map under the solver.
//! Serves C06 (state-vector diff) and C07 (cursor advance).
#![allow(unused)]
pub const MODEL_CAP: usize = 2;
#[macro_use]
pub mod sym;
#[path = "collections.rs"]
pub mod verif_models;
/// shim for `crate::identity::Author` (marker trait, copied bounds)
pub mod identity {
    pub trait Author: Clone + PartialEq + Ord + std::hash::Hash + serde::Serialize + for<'de> serde::Deserialize<'de> {}
}
#[path = "staged/logs.rs"]
pub mod logs;
#[path = "staged/cursor.rs"]
pub mod cursor;

pub mod c06;
pub mod c07;

#[derive(Clone, Copy, Debug, PartialEq, Eq, PartialOrd, Ord, Hash, serde::Serialize, serde::Deserialize)]
pub struct A(pub u8);
impl identity::Author for A {}

#[cfg(all(test, not(kani)))]
mod replay_entry {
    #[test]
    fn verif_replay_entry() {
        let name = std::env::var("VERIF_HARNESS").expect("VERIF_HARNESS");
        let script = std::fs::read_to_string(std::env::var("VERIF_SCRIPT").expect("VERIF_SCRIPT")).unwrap();
        crate::sym::script::load(crate::sym::script::parse(&script));
        if !crate::c06::dispatch(&name) && !crate::c07::dispatch(&name) { panic!("unknown harness {name}"); }
        println!("REPLAY-DONE");
    }
}
