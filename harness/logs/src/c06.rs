//! C06 — state-vector diff returns exactly what the remote is missing.
//! Real code: `logs::compare`, `Cursor::compare` (p2panda-core/src/logs.rs, cursor.rs).
//!
//! Shapes (which authors / logs exist on each side, including an author entry with an empty log
//! map) are enumerated concretely; all heights are symbolic u32.
use crate::cursor::Cursor;
use crate::logs::{compare, LogHeights, LogRanges};
use crate::verif_models::BTreeMap;
use crate::{sym, A};

pub const NA: usize = 2; // authors
pub const NL: usize = 2; // logs per author

/// Side shape: bit (a*NL + l) = log present; bit (NA*NL + a) = author entry present even if empty.
pub fn build(shape: u16, hs: &[[u32; NL]; NA]) -> LogHeights<A, u8> {
    let mut m: LogHeights<A, u8> = BTreeMap::new();
    let mut a = 0;
    while a < NA {
        let mut inner: BTreeMap<u8, u32> = BTreeMap::new();
        let mut l = 0;
        while l < NL {
            if shape & (1 << (a * NL + l)) != 0 { inner.insert(l as u8, hs[a][l]); }
            l += 1;
        }
        if !inner.is_empty() || shape & (1 << (NA * NL + a)) != 0 { m.insert(A(a as u8), inner); }
        a += 1;
    }
    m
}

fn present(shape: u16, a: usize, l: usize) -> bool { shape & (1 << (a * NL + l)) != 0 }

fn any_heights() -> [[u32; NL]; NA] {
    let mut hs = [[0u32; NL]; NA];
    let mut a = 0;
    while a < NA { let mut l = 0; while l < NL { hs[a][l] = sym::any_u32(); l += 1; } a += 1; }
    hs
}

/// The whole statement for one concrete pair of shapes, all heights symbolic.
pub fn check_pair(ls: u16, rs: u16, via_cursor: bool) {
    let lh = any_heights();
    let rh = any_heights();
    let local = build(ls, &lh);
    let remote = build(rs, &rh);
    let diff: LogRanges<A, u8> = if via_cursor {
        // a cursor holds the REMOTE side's state and is compared against the local heights
        Cursor::new("c", remote.clone()).compare(&local)
    } else {
        compare(&local, &remote)
    };
    let mut a = 0;
    while a < NA {
        let mut l = 0;
        while l < NL {
            let got = diff.get(&A(a as u8)).and_then(|m| m.get(&(l as u8))).copied();
            let lp = present(ls, a, l);
            let rp = present(rs, a, l);
            let want = if lp && !rp { Some((None, Some(lh[a][l]))) }
                else if lp && rp && rh[a][l] < lh[a][l] { Some((Some(rh[a][l]), Some(lh[a][l]))) }
                else { None };
            witness!(want.is_some(), "witness: some log needs a range");
            if want.is_some() {
                vassert!(got == want, "C06.missing: a log the remote lacks or is behind on gets exactly (remote height or start, local height]");
            } else {
                vassert!(got.is_none(), "C06.nothing-extra: no range for a log where the remote is equal, ahead, or the local side has nothing");
            }
            // merge law: raising the remote to the upper end of the diff gives the pointwise maximum
            let merged = match got { Some((_, Some(until))) => Some(until), Some((_, None)) => None, None => if rp { Some(rh[a][l]) } else { None } };
            let max = match (lp, rp) {
                (true, true) => Some(if lh[a][l] > rh[a][l] { lh[a][l] } else { rh[a][l] }),
                (true, false) => Some(lh[a][l]),
                (false, true) => Some(rh[a][l]),
                (false, false) => None,
            };
            vassert!(merged == max, "C06.merge: merging the diff into the remote heights yields the pointwise maximum");
            l += 1;
        }
        a += 1;
    }
    std::mem::forget(local);
    std::mem::forget(remote);
    std::mem::forget(diff);
}

// one author, two logs, author entry possibly empty: 5 side shapes -> 25 pairs
const ONE_AUTHOR: [u16; 5] = [0b00_0000, 0b01_0000, 0b00_0001, 0b00_0010, 0b00_0011];

fn one_author_row(i: usize) { let mut j = 0; while j < 5 { check_pair(ONE_AUTHOR[i], ONE_AUTHOR[j], false); j += 1; } }
macro_rules! one_author_harness { ($name:ident, $i:expr) => {
    #[cfg_attr(kani, kani::proof)]
    #[cfg_attr(kani, kani::unwind(7))]
    pub fn $name() { one_author_row($i); }
}; }
one_author_harness!(one_author_local_absent, 0);
one_author_harness!(one_author_local_empty_entry, 1);
one_author_harness!(one_author_local_log0, 2);
one_author_harness!(one_author_local_log1, 3);
one_author_harness!(one_author_local_both, 4);

macro_rules! pair_harness {
    ($name:ident, $ls:expr, $rs:expr, $cur:expr) => {
        #[cfg_attr(kani, kani::proof)]
        #[cfg_attr(kani, kani::unwind(5))]
        pub fn $name() { check_pair($ls, $rs, $cur); }
    };
}
// hand-picked two-author shape pairs (quick tier)
pair_harness!(two_authors_full_vs_full, 0b00_1111, 0b00_1111, false);
pair_harness!(two_authors_full_vs_partial, 0b00_1111, 0b00_0101, false);
pair_harness!(two_authors_partial_vs_full, 0b00_0110, 0b00_1111, false);
pair_harness!(two_authors_full_vs_missing_author, 0b00_1111, 0b00_0011, false);
pair_harness!(two_authors_full_vs_empty_author_entry, 0b00_1111, 0b10_0011, false);
pair_harness!(two_authors_disjoint, 0b00_1001, 0b00_0110, false);
pair_harness!(cursor_compare_full_vs_partial, 0b00_1111, 0b00_0101, true);

/// thorough: all 16 x 16 log-presence pairs for two authors x two logs, one local shape per harness
fn row(ls: u16) { let mut rs = 0u16; while rs < 16 { check_pair(ls, rs, false); rs += 1; } }
macro_rules! row_harness { ($name:ident, $ls:expr) => {
    #[cfg_attr(kani, kani::proof)]
    #[cfg_attr(kani, kani::unwind(18))]
    pub fn $name() { row($ls); }
}; }
row_harness!(row_00, 0); row_harness!(row_01, 1); row_harness!(row_02, 2); row_harness!(row_03, 3);
row_harness!(row_04, 4); row_harness!(row_05, 5); row_harness!(row_06, 6); row_harness!(row_07, 7);
row_harness!(row_08, 8); row_harness!(row_09, 9); row_harness!(row_10, 10); row_harness!(row_11, 11);
row_harness!(row_12, 12); row_harness!(row_13, 13); row_harness!(row_14, 14); row_harness!(row_15, 15);

pub fn dispatch(name: &str) -> bool {
    match name {
        "c06::one_author_local_absent" => one_author_local_absent(),
        "c06::one_author_local_empty_entry" => one_author_local_empty_entry(),
        "c06::one_author_local_log0" => one_author_local_log0(),
        "c06::one_author_local_log1" => one_author_local_log1(),
        "c06::one_author_local_both" => one_author_local_both(),
        "c06::two_authors_full_vs_full" => two_authors_full_vs_full(),
        "c06::two_authors_full_vs_partial" => two_authors_full_vs_partial(),
        "c06::two_authors_partial_vs_full" => two_authors_partial_vs_full(),
        "c06::two_authors_full_vs_missing_author" => two_authors_full_vs_missing_author(),
        "c06::two_authors_full_vs_empty_author_entry" => two_authors_full_vs_empty_author_entry(),
        "c06::two_authors_disjoint" => two_authors_disjoint(),
        "c06::cursor_compare_full_vs_partial" => cursor_compare_full_vs_partial(),
        "c06::row_00" => row_00(), "c06::row_01" => row_01(), "c06::row_02" => row_02(), "c06::row_03" => row_03(),
        "c06::row_04" => row_04(), "c06::row_05" => row_05(), "c06::row_06" => row_06(), "c06::row_07" => row_07(),
        "c06::row_08" => row_08(), "c06::row_09" => row_09(), "c06::row_10" => row_10(), "c06::row_11" => row_11(),
        "c06::row_12" => row_12(), "c06::row_13" => row_13(), "c06::row_14" => row_14(), "c06::row_15" => row_15(),
        _ => return false,
    }
    true
}
