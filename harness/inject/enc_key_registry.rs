
// ---- appended by /verif staging (scratch copy only): C38 harnesses ----
#[cfg(any(kani, verif_replay))]
pub mod verif_proofs {
    //! C38 — expired or invalid key bundles are never accepted or used.
    //! Real code: `KeyRegistry::{add_onetime_bundle, add_longterm_bundle, remove_expired}`, both
    //! `PreKeyRegistry::key_bundle` impls, `latest_key_bundle`, `OneTimeKeyBundle/LongTermKeyBundle::verify`,
    //! `Lifetime::verify`.
    //!
    //! The wall clock is read independently at add time and at lookup time (lookup >= add).
    use super::*;
    use crate::crypto::x25519::SecretKey;
    use crate::crypto::xeddsa::{XEdDSAError, XSignature};
    use crate::key_bundle::{Lifetime, OneTimePreKey, PreKey};
    use crate::sym;
    use crate::{vassert, witness};

    pub static mut SIG_OK: [bool; 4] = [false; 4];

    /// XEdDSA stand-in under the solver: the verdict for the bundle whose signature's first byte is `i`
    /// is SIG_OK[i] (symbolic). Natively bundles are really signed (or carry a garbage signature).
    pub fn xeddsa_verify_stub(_bytes: &[u8], _key: &PublicKey, sig: &XSignature) -> Result<(), XEdDSAError> {
        let i = (sig.as_bytes()[0] & 3) as usize;
        if unsafe { SIG_OK[i] } { Ok(()) } else { Err(XEdDSAError::VerificationFailed) }
    }

    struct Spec { nb: u64, na: u64, sig_ok: bool }

    fn any_spec() -> Spec {
        let nb = sym::any_u64();
        let na = sym::any_u64();
        Spec { nb, na, sig_ok: sym::any_bool() }
    }
    fn valid_at(s: &Spec, now: u64) -> bool { s.nb < now && now < s.na && s.sig_ok }

    fn parts(i: u8, s: &Spec) -> (PublicKey, PreKey, XSignature) {
        unsafe { SIG_OK[i as usize] = s.sig_ok; }
        #[cfg(kani)]
        {
            let identity = PublicKey::from_bytes([9u8; 32]);
            let prekey = PreKey::new(PublicKey::from_bytes([i + 1; 32]), Lifetime::from_range(s.nb, s.na));
            let mut sb = [0u8; 64];
            sb[0] = i;
            (identity, prekey, XSignature::from_bytes(sb))
        }
        #[cfg(not(kani))]
        {
            let rng = crate::Rng::from_seed([3; 32]);
            let sk = SecretKey::from_bytes([9u8; 32]);
            let identity = sk.verifying_key().unwrap();
            let pre_sk = SecretKey::from_bytes([i + 1; 32]);
            let prekey = PreKey::new(pre_sk.verifying_key().unwrap(), Lifetime::from_range(s.nb, s.na));
            let sig = if s.sig_ok { prekey.sign(&sk, &rng).unwrap() } else { XSignature::from_bytes([i; 64]) };
            (identity, prekey, sig)
        }
    }
    fn onetime(i: u8, s: &Spec) -> OneTimeKeyBundle {
        let (id, pk, sig) = parts(i, s);
        OneTimeKeyBundle::new(id, pk, sig, Some(OneTimePreKey::new(PublicKey::from_bytes([0x77; 32]), i as u64)))
    }
    fn longterm(i: u8, s: &Spec) -> LongTermKeyBundle {
        let (id, pk, sig) = parts(i, s);
        LongTermKeyBundle::new(id, pk, sig)
    }

    /// two independent wall-clock readings: the clock may also have stepped BACKWARDS between add and
    /// lookup (a bundle accepted earlier can then be "not yet valid" at lookup time)
    fn two_clock_readings() -> (u64, u64) {
        let add = sym::any_u64();
        let lookup = sym::any_u64();
        sym::assume(add < (1u64 << 62));
        // SystemTime beyond i64 seconds is not representable
        sym::assume(lookup < (1u64 << 62));
        (add, lookup)
    }

    macro_rules! c38_harness { ($(#[$m:meta])* pub fn $name:ident() $body:block) => {
        #[cfg_attr(kani, kani::proof)]
        #[cfg_attr(kani, kani::unwind(6))]
        #[cfg_attr(kani, kani::stub(std::time::SystemTime::now, crate::sym::clock::systemtime_now_stub))]
        #[cfg_attr(kani, kani::stub(std::time::SystemTime::duration_since, crate::sym::clock::duration_since_stub))]
        #[cfg_attr(kani, kani::stub(crate::crypto::xeddsa::xeddsa_verify, xeddsa_verify_stub))]
        $(#[$m])*
        pub fn $name() $body
    }; }

    c38_harness! {
        /// one-time bundle: accepted exactly when valid now; if handed out later it is valid then
        pub fn onetime_accept_and_lookup() {
            let (t_add, t_lookup) = two_clock_readings();
            let s0 = any_spec();
            sym::clock::set_realtime(t_add, 0);
            sym::clock::assert_fake_clock_active();
            let y = KeyRegistry::<usize>::init();
            let r = KeyRegistry::add_onetime_bundle(y, 1, onetime(0, &s0));
            vassert!(r.is_ok() == valid_at(&s0, t_add), "C38.accept-onetime: a one-time bundle is accepted exactly when its lifetime is currently valid and its signature verifies");
            if let Ok(y) = r {
                // later ...
                sym::clock::set_realtime(t_lookup, 0);
                let (y, got) = <KeyRegistry<usize> as PreKeyRegistry<usize, OneTimeKeyBundle>>::key_bundle(y, &1).unwrap();
                witness!(got.is_some(), "witness: a one-time bundle is handed out");
                witness!(!valid_at(&s0, t_lookup), "witness: a bundle accepted earlier has expired by lookup time");
                if let Some(b) = &got {
                    vassert!(b.lifetime().verify().is_ok(), "C38.lookup-onetime: a one-time bundle returned for a member is valid at the time it is returned");
                }
                std::mem::forget((y, got));
            }
        }
    }

    c38_harness! {
        /// two one-time bundles accepted, lookup later: whatever is handed out is valid then
        pub fn onetime_two_bundles_lookup() {
            let (t_add, t_lookup) = two_clock_readings();
            let s0 = any_spec();
            let s1 = any_spec();
            sym::assume(valid_at(&s0, t_add) && valid_at(&s1, t_add));
            sym::clock::set_realtime(t_add, 0);
            // the registry state after both bundles were accepted (built directly: pushing the second
            // bundle through Vec::push/realloc of 200-byte elements exhausts CBMC's memory)
            let mut y = KeyRegistry::<usize>::init();
            y.onetime_bundles.insert(1, vec![onetime(0, &s0), onetime(1, &s1)]);
            sym::clock::set_realtime(t_lookup, 0);
            let (y, got) = <KeyRegistry<usize> as PreKeyRegistry<usize, OneTimeKeyBundle>>::key_bundle(y, &1).unwrap();
            witness!(got.is_some(), "witness: a one-time bundle is handed out");
            if let Some(b) = &got {
                vassert!(b.lifetime().verify().is_ok(), "C38.lookup-onetime-two: with several stored one-time bundles the one returned is valid at the time it is returned");
            }
            std::mem::forget((y, got));
        }
    }

    c38_harness! {
        /// long-term bundle: accepted exactly when valid now
        pub fn longterm_accept() {
            let (t_add, _) = two_clock_readings();
            let s0 = any_spec();
            sym::clock::set_realtime(t_add, 0);
            sym::clock::assert_fake_clock_active();
            let r = KeyRegistry::add_longterm_bundle(KeyRegistry::<usize>::init(), 1, longterm(0, &s0));
            witness!(r.is_ok(), "witness: a long-term bundle is accepted");
            witness!(r.is_err() && s0.sig_ok, "witness: a correctly signed but expired or not yet valid bundle is rejected");
            vassert!(r.is_ok() == valid_at(&s0, t_add), "C38.accept-longterm: a long-term bundle is accepted exactly when its lifetime is currently valid and its signature verifies");
            std::mem::forget(r);
        }
    }

    c38_harness! {
        /// two accepted long-term bundles, lookup later: returns a currently valid one with the furthest
        /// expiry, or an error/None — never an expired one
        pub fn longterm_lookup() {
            let (t_add, t_lookup) = two_clock_readings();
            let s0 = any_spec();
            let s1 = any_spec();
            sym::assume(valid_at(&s0, t_add) && valid_at(&s1, t_add));
            sym::clock::set_realtime(t_add, 0);
            sym::clock::assert_fake_clock_active();
            // the registry state after both bundles were accepted (built directly, see above)
            let mut y = KeyRegistry::<usize>::init();
            y.longterm_bundles.insert(1, vec![longterm(0, &s0), longterm(1, &s1)]);
            sym::clock::set_realtime(t_lookup, 0);
            let res = <KeyRegistry<usize> as PreKeyRegistry<usize, LongTermKeyBundle>>::key_bundle(y, &1);
            let v0 = s0.nb < t_lookup && t_lookup < s0.na;
            let v1 = s1.nb < t_lookup && t_lookup < s1.na;
            witness!(v0 && v1, "witness: two valid long-term bundles at lookup");
            witness!(!v0 && v1, "witness: one accepted long-term bundle expired before lookup");
            match &res {
                Ok((_, Some(b))) => {
                    let lt = b.lifetime();
                    vassert!(lt.verify().is_ok(), "C38.lookup-longterm: a long-term bundle returned for a member is valid at the time it is returned");
                    vassert!(v0 || v1, "C38.lookup-longterm-known: a returned long-term bundle is one of the accepted, still valid ones");
                    vassert!((!v0 || lt >= &Lifetime::from_range(s0.nb, s0.na)) && (!v1 || lt >= &Lifetime::from_range(s1.nb, s1.na)),
                        "C38.lookup-longterm-latest: of the valid bundles the one with the furthest expiry is returned");
                }
                _ => { vassert!(!v0 && !v1, "C38.lookup-longterm-available: a valid long-term bundle is found when one exists"); }
            }
            std::mem::forget(res);
        }
    }

    c38_harness! {
        /// remove_expired keeps exactly the bundles that still verify
        pub fn remove_expired_keeps_only_valid() {
            let (t_add, t_lookup) = two_clock_readings();
            let s0 = any_spec();
            sym::clock::set_realtime(t_add, 0);
            let y = KeyRegistry::<usize>::init();
            let r = KeyRegistry::add_onetime_bundle(y, 1, onetime(0, &s0));
            if let Ok(y) = r {
                sym::clock::set_realtime(t_lookup, 0);
                let y = KeyRegistry::remove_expired(y);
                let (y, got) = <KeyRegistry<usize> as PreKeyRegistry<usize, OneTimeKeyBundle>>::key_bundle(y, &1).unwrap();
                witness!(got.is_none(), "witness: the expired bundle was removed");
                vassert!(got.is_some() == valid_at(&s0, t_lookup), "C38.remove-expired: after remove_expired exactly the still valid bundles remain");
                std::mem::forget((y, got));
            }
        }
    }

    pub fn dispatch(name: &str) -> bool {
        match name {
            "key_registry::verif_proofs::onetime_accept_and_lookup" => onetime_accept_and_lookup(),
            "key_registry::verif_proofs::onetime_two_bundles_lookup" => onetime_two_bundles_lookup(),
            "key_registry::verif_proofs::longterm_accept" => longterm_accept(),
            "key_registry::verif_proofs::longterm_lookup" => longterm_lookup(),
            "key_registry::verif_proofs::remove_expired_keeps_only_valid" => remove_expired_keeps_only_valid(),
            _ => return false,
        }
        true
    }
}
