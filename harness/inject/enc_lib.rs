
// ---- appended by /verif staging (scratch copy only) ----
#[cfg(any(kani, verif_replay))]
pub const MODEL_CAP: usize = 6;
#[cfg(any(kani, verif_replay))]
pub mod sym;
#[cfg(any(kani, verif_replay))]
pub mod verif_models;

#[cfg(all(test, verif_replay, not(kani)))]
mod verif_replay_entry_mod {
    #[test]
    fn verif_replay_entry() {
        let name = std::env::var("VERIF_HARNESS").expect("VERIF_HARNESS");
        if std::env::var("VERIF_SEARCH").is_ok() {
            // fallback when Kani's trace is too large for concrete playback: native enumeration
            #[cfg(feature = "message_scheme")]
            if name == "message_scheme::ratchet::verif_proofs::one_step_from_any_valid_state" {
                crate::sym::search(crate::message_scheme::ratchet::verif_proofs::one_step_from_any_valid_state, 2_000_000);
                return;
            }
            panic!("no search mode for {name}");
        }
        let script = std::fs::read_to_string(std::env::var("VERIF_SCRIPT").expect("VERIF_SCRIPT")).unwrap();
        crate::sym::script::load(crate::sym::script::parse(&script));
        let mut found = false;
        #[cfg(feature = "message_scheme")]
        { found = found || crate::message_scheme::ratchet::verif_proofs::dispatch(&name); }
        found = found || crate::data_scheme::group_secret::verif_proofs::dispatch(&name);
        found = found || crate::key_registry::verif_proofs::dispatch(&name);
        if !found { panic!("unknown harness {name}"); }
        println!("REPLAY-DONE");
    }
}
