
// ---- appended by /verif staging (scratch copy only): C34 harnesses ----
#[cfg(any(kani, verif_replay))]
pub mod verif_proofs {
    //! C34 — message ratchet yields the sender's key for any delivery order.
    //! Real code: `DecryptionRatchet::secret_for_decryption`, `RatchetSecret::ratchet_forward`.
    //!
    //! Sender oracle = the real `RatchetSecret::ratchet_forward` chain from the same initial secret.
    //! Under Kani, HKDF-SHA256 is replaced by a labelled, injective step function (stub below);
    //! natively the real HKDF runs on both sides.
    use super::*;
    use crate::sym;
    use crate::{vassert, witness};

    /// HKDF stand-in: the 32-byte secret carries a chain position in bytes 0..4; "chain" advances it,
    /// "key"/"nonce" derive material tagged with the label. Deterministic and injective in
    /// (label, chain position) — the two facts about HKDF the ratchet relies on.
    pub fn hkdf_stub<const N: usize>(salt: &[u8], ikm: &[u8], _info: Option<&[u8]>) -> Result<[u8; N], HkdfError> {
        let mut out = [0u8; N];
        let pos = u32::from_le_bytes([ikm[0], ikm[1], ikm[2], ikm[3]]);
        let tag = salt[0];
        let v = if tag == b'c' { pos.wrapping_add(1) } else { pos };
        let b = v.to_le_bytes();
        out[0] = b[0]; out[1] = b[1]; out[2] = b[2]; out[3] = b[3];
        if tag != b'c' { out[4] = tag; }
        // carry the chain identity (bytes 5..8 of the secret) through, so different initial secrets differ
        out[5] = ikm[5]; out[6] = ikm[6]; out[7] = ikm[7];
        Ok(out)
    }

    fn initial_secret() -> [u8; MESSAGE_KEY_SIZE] {
        let mut s = [0u8; MESSAGE_KEY_SIZE];
        s[5] = sym::any_u8(); s[6] = sym::any_u8(); s[7] = sym::any_u8();
        s
    }

    type Material = ([u8; MESSAGE_KEY_SIZE], RatchetNonce);

    /// The sender's key material for generations 0..GENS: the real encryption ratchet, run once.
    fn sender_materials(init: [u8; MESSAGE_KEY_SIZE]) -> [Material; GENS as usize] {
        let mut out: [Material; GENS as usize] = [([0u8; MESSAGE_KEY_SIZE], [0u8; 12]); GENS as usize];
        let mut y = RatchetSecret::init(Secret::from_bytes(init));
        let mut g = 0usize;
        while g < GENS as usize {
            let (yn, generation, (key, nonce)) = RatchetSecret::ratchet_forward(y).unwrap();
            assert!(generation as usize == g);
            out[g] = (*key.as_bytes(), nonce);
            std::mem::forget(key);
            y = yn;
            g += 1;
        }
        std::mem::forget(y);
        out
    }

    /// loop-free comparison (u64 chunks) so that the harness' unwinding bound stays small
    fn same_material(key: &[u8; MESSAGE_KEY_SIZE], nonce: &RatchetNonce, want: &Material) -> bool {
        let c = |b: &[u8], i: usize| u64::from_le_bytes([b[i], b[i + 1], b[i + 2], b[i + 3], b[i + 4], b[i + 5], b[i + 6], b[i + 7]]);
        c(key, 0) == c(&want.0, 0) && c(key, 8) == c(&want.0, 8) && c(key, 16) == c(&want.0, 16) && c(key, 24) == c(&want.0, 24)
            && c(nonce, 0) == c(&want.1, 0) && c(nonce, 4) == c(&want.1, 4)
    }

    const GENS: u32 = 4; // generations 0..=3

    /// `steps` requests over generations 0..GENS with symbolic window sizes (0..=maxwin).
    fn sequence(steps: usize, maxwin: u8) {
        let init = initial_secret();
        let sender = sender_materials(init);
        // the forward window may exceed the out-of-order window by one (jumps larger than the ooo window)
        let max_fwd = sym::any_below(maxwin + 2) as u32;
        let ooo = sym::any_below(maxwin + 1) as u32;
        let mut y = DecryptionRatchet::init(Secret::from_bytes(init));
        // reference model: next expected generation and which generations were handed out
        let mut head: u32 = 0;
        let mut served = [false; GENS as usize];
        let mut step = 0;
        let mut n_ok = 0u8;
        let mut n_past_ok = 0u8;
        while step < steps {
            let g = sym::any_below(GENS as u8) as u32;
            let res = DecryptionRatchet::secret_for_decryption(y, g, max_fwd, ooo);
            // specification of the windows
            let too_future = g > head + max_fwd;
            let too_past = g < head && head - g > ooo;
            let expect_ok = !too_future && !too_past && !served[g as usize];
            match res {
                Ok((yn, (key, nonce))) => {
                    vassert!(!served[g as usize], "C34.once: a generation's key is handed out at most once");
                    vassert!(!too_future && !too_past, "C34.window-reject: a generation outside the configured windows is rejected");
                    let mut want = sender[0];
                    let mut k = 1;
                    while k < GENS as usize { if k == g as usize { want = sender[k]; } k += 1; }
                    vassert!(same_material(key.as_bytes(), &nonce, &want), "C34.sender-key: the derived key material is exactly the sender's for that generation");
                    served[g as usize] = true;
                    if g >= head { head = g + 1; } else { n_past_ok += 1; }
                    n_ok += 1;
                    std::mem::forget(key);
                    y = yn;
                }
                Err(_) => {
                    vassert!(!expect_ok, "C34.window-serve: an unused generation inside the windows is served");
                    witness!(too_future, "witness: a request beyond the forward window was rejected");
                    // the state is consumed by a failing call (API moves it); the sequence ends here
                    return;
                }
            }
            step += 1;
        }
        witness!(n_past_ok >= 1, "witness: an out-of-order (past) generation was served");
        witness!(n_ok as usize == steps, "witness: all requests served");
        std::mem::forget(y);
    }

    #[cfg_attr(kani, kani::proof)]
    #[cfg_attr(kani, kani::unwind(10))]
    #[cfg_attr(kani, kani::stub(crate::crypto::hkdf::hkdf, hkdf_stub))]
    pub fn two_requests_windows_le2() { sequence(2, 2); }

    #[cfg_attr(kani, kani::proof)]
    #[cfg_attr(kani, kani::unwind(10))]
    #[cfg_attr(kani, kani::stub(crate::crypto::hkdf::hkdf, hkdf_stub))]
    pub fn three_requests_windows_le2() { sequence(3, 2); }

    #[cfg_attr(kani, kani::proof)]
    #[cfg_attr(kani, kani::unwind(10))]
    #[cfg_attr(kani, kani::stub(crate::crypto::hkdf::hkdf, hkdf_stub))]
    pub fn three_requests_windows_le3() { sequence(3, 3); }

    #[cfg_attr(kani, kani::proof)]
    #[cfg_attr(kani, kani::unwind(10))]
    #[cfg_attr(kani, kani::stub(crate::crypto::hkdf::hkdf, hkdf_stub))]
    pub fn four_requests_windows_le3() { sequence(4, 3); }

    // --------------------------------------------------------------------------------------------
    // ONE INDUCTIVE STEP from an arbitrary ratchet state satisfying the representation invariant:
    //   * the head secret is the sender's chain secret of generation `head`;
    //   * past_secrets[i] belongs to generation head-1-i and is either the sender's material of that
    //     generation (still unused) or None (already handed out / the marker of a served generation);
    //   * at most `ooo` entries are kept, none for generations that never existed.
    // One arbitrary request from such a state: the answer matches the specification AND the post-state
    // satisfies the invariant again with exactly the expected availability of every generation inside
    // the out-of-order window. By induction this covers request histories of any length.
    // --------------------------------------------------------------------------------------------
    const NG: usize = 8; // generations 0..7 are precomputed from the sender side

    fn chain(init: [u8; MESSAGE_KEY_SIZE]) -> ([[u8; MESSAGE_KEY_SIZE]; NG], [Material; NG]) {
        // chain secrets (state BEFORE deriving generation g) and materials, from the real sender ratchet
        let mut secrets = [[0u8; MESSAGE_KEY_SIZE]; NG];
        let mut mats: [Material; NG] = [([0u8; MESSAGE_KEY_SIZE], [0u8; 12]); NG];
        let mut y = RatchetSecret::init(Secret::from_bytes(init));
        let mut g = 0usize;
        while g < NG {
            secrets[g] = *y.secret.as_bytes();
            let (yn, generation, (key, nonce)) = RatchetSecret::ratchet_forward(y).unwrap();
            assert!(generation as usize == g);
            mats[g] = (*key.as_bytes(), nonce);
            std::mem::forget(key);
            y = yn;
            g += 1;
        }
        std::mem::forget(y);
        (secrets, mats)
    }
    fn pick<T: Copy>(xs: &[T; NG], i: usize) -> T { let mut out = xs[0]; let mut k = 1; while k < NG { if k == i { out = xs[k]; } k += 1; } out }

    #[cfg_attr(kani, kani::proof)]
    #[cfg_attr(kani, kani::unwind(10))]
    #[cfg_attr(kani, kani::stub(crate::crypto::hkdf::hkdf, hkdf_stub))]
    pub fn one_step_from_any_valid_state() {
        let init = initial_secret();
        let (secrets, mats) = chain(init);
        let ooo = sym::any_below(4) as u32;      // out-of-order tolerance 0..=3
        let max_fwd = sym::any_below(4) as u32;  // forward distance 0..=3
        sym::assume(ooo + max_fwd <= 5);         // keeps the queue inside the model capacity (6)
        let head = sym::any_below(5) as u32;     // 0..=4
        let len = sym::any_below(4) as u32;      // kept entries
        sym::assume(len <= ooo && len <= head);
        let avail = [sym::any_bool(), sym::any_bool(), sym::any_bool()];
        // pre-state
        let mut past: VecDeque<Option<RatchetKeyMaterial>> = VecDeque::new();
        let mut i = 0u32;
        while i < 3 {
            if i < len {
                let m = pick(&mats, (head - 1 - i) as usize);
                past.push_back(if avail[i as usize] { Some((Secret::from_bytes(m.0), m.1)) } else { None });
            }
            i += 1;
        }
        let y = DecryptionRatchetState { past_secrets: past, ratchet_head: RatchetSecretState { secret: Secret::from_bytes(pick(&secrets, head as usize)), generation: head } };
        let g = sym::any_below(8) as u32;
        sym::assume(g <= head + max_fwd + 1 && (g as usize) + 1 < NG); // the new head (g + 1) must be a precomputed generation
        let res = DecryptionRatchet::secret_for_decryption(y, g, max_fwd, ooo);
        // specification
        let too_future = g > head + max_fwd;
        let too_past = g < head && head - g > ooo;
        let idx = if g < head { head - 1 - g } else { 0 };
        let stored = g < head && idx < len && avail[(idx as usize).min(2)];
        let expect_ok = !too_future && !too_past && (g >= head || stored);
        witness!(expect_ok && g < head, "witness: a stored past generation is requested");
        witness!(expect_ok && g > head, "witness: a jump ahead");
        witness!(!expect_ok && g < head && !too_past, "witness: an already used generation inside the window is requested");
        match res {
            Err(_) => { vassert!(!expect_ok, "C34.step-serve: from any valid state an unused generation inside the windows is served"); }
            Ok((post, (key, nonce))) => {
                vassert!(expect_ok, "C34.step-reject: from any valid state a generation outside the windows or already handed out is rejected");
                vassert!(same_material(key.as_bytes(), &nonce, &pick(&mats, g as usize)), "C34.step-sender-key: the key material handed out is exactly the sender's for that generation");
                let new_head = if g >= head { g + 1 } else { head };
                vassert!(post.ratchet_head.generation == new_head, "C34.step-head: the head moves to one past the highest served generation");
                let hs = pick(&secrets, new_head as usize);
                vassert!(same_material(post.ratchet_head.secret.as_bytes(), &[0u8; 12], &(hs, [0u8; 12])), "C34.step-chain: the head secret is the sender's chain secret of the new head generation");
                vassert!(post.past_secrets.len() as u32 <= ooo, "C34.step-window: at most `ooo_tolerance` past entries are kept");
                // availability of every generation inside the out-of-order window after the step
                let mut x = 0u32;
                while x < 8 {
                    if x < new_head && new_head - x <= ooo {
                        let was_available = if x >= head { x != g } else { let j = head - 1 - x; j < len && avail[(j as usize).min(2)] && x != g };
                        let j = new_head - 1 - x;
                        let entry = post.past_secrets.get(j as usize);
                        match entry {
                            Some(Some((k, n))) => {
                                vassert!(was_available, "C34.step-once: a generation that was handed out (or never skipped) is not available again");
                                vassert!(same_material(k.as_bytes(), n, &pick(&mats, x as usize)), "C34.step-stored-key: a kept key belongs to its generation");
                            }
                            _ => { vassert!(!was_available, "C34.step-keeps: an unused generation inside the out-of-order window stays available"); }
                        }
                    }
                    x += 1;
                }
                std::mem::forget(key);
                std::mem::forget(post);
            }
        }
    }

    /// One step from an ARBITRARY head generation (window arithmetic near u32 limits): a request
    /// beyond head + max_fwd is rejected, a request more than `ooo` behind is rejected, the current
    /// head is served.
    #[cfg_attr(kani, kani::proof)]
    #[cfg_attr(kani, kani::unwind(10))]
    #[cfg_attr(kani, kani::stub(crate::crypto::hkdf::hkdf, hkdf_stub))]
    pub fn window_arithmetic_any_head() {
        let head = sym::any_u32();
        let g = sym::any_u32();
        let max_fwd = sym::any_u32();
        let ooo = sym::any_u32();
        // serving generation u32::MAX overflows the head counter (2^32 messages: outside the claim)
        sym::assume(head < u32::MAX - 8 && g < u32::MAX - 8);
        // keep the forward loop inside the unwinding bound
        sym::assume(g <= head || g - head <= 3);
        // an out-of-order tolerance of 2^31 or more makes `((head - generation) as i32) - 1` overflow
        // (debug panic, release wrap -> IndexOutOfBounds): absurd configuration, outside the claim
        sym::assume(ooo < (1u32 << 31));
        let mut secret = [0u8; MESSAGE_KEY_SIZE];
        let hb = head.to_le_bytes();
        secret[0] = hb[0]; secret[1] = hb[1]; secret[2] = hb[2]; secret[3] = hb[3];
        let y = DecryptionRatchetState {
            past_secrets: VecDeque::new(),
            ratchet_head: RatchetSecretState { secret: Secret::from_bytes(secret), generation: head },
        };
        let res = DecryptionRatchet::secret_for_decryption(y, g, max_fwd, ooo);
        let too_future = (g as u64) > head as u64 + max_fwd as u64;
        let too_past = g < head && head - g > ooo;
        witness!(too_future, "witness: beyond the forward window");
        witness!(res.is_ok() && g > head, "witness: jump ahead served");
        if too_future || too_past {
            vassert!(res.is_err(), "C34.window-reject-any-head: requests outside the windows are rejected for every head generation");
        }
        if g >= head && !too_future {
            vassert!(res.is_ok(), "C34.window-serve-any-head: the head generation and those inside the forward window are served");
        }
        std::mem::forget(res);
    }

    pub fn dispatch(name: &str) -> bool {
        match name {
            "message_scheme::ratchet::verif_proofs::one_step_from_any_valid_state" => one_step_from_any_valid_state(),
            "message_scheme::ratchet::verif_proofs::two_requests_windows_le2" => two_requests_windows_le2(),
            "message_scheme::ratchet::verif_proofs::three_requests_windows_le2" => three_requests_windows_le2(),
            "message_scheme::ratchet::verif_proofs::three_requests_windows_le3" => three_requests_windows_le3(),
            "message_scheme::ratchet::verif_proofs::four_requests_windows_le3" => four_requests_windows_le3(),
            "message_scheme::ratchet::verif_proofs::window_arithmetic_any_head" => window_arithmetic_any_head(),
            _ => return false,
        }
        true
    }
}
