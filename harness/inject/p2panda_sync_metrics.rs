
// ---- appended by /verif staging (scratch copy only): C40 harnesses ----
#[cfg(any(kani, verif_replay))]
pub mod verif_proofs {
    //! C40 — topic sync metrics count every session's bytes exactly once.
    //! Real code: `Aggregator::process`, `handle_session_end`, the total/running accessors.
    use super::*;
    use crate::sym;
    use crate::{vassert, witness};
    use p2panda_core::VerifyingKey;

    fn ev(session_id: u64, event: TopicLogSyncEvent<()>) -> FromSync<TopicLogSyncEvent<()>> {
        FromSync { session_id, remote: VerifyingKey::default(), event }
    }

    /// metrics of one session: sync-phase counts and live-phase counts (< 2^16 each: no u32 overflow)
    #[derive(Clone, Copy)]
    struct SessionBytes { sent_sync: u32, recv_sync: u32, sent_live: u32, recv_live: u32 }
    fn any_session_bytes() -> SessionBytes {
        SessionBytes { sent_sync: sym::any_u16() as u32, recv_sync: sym::any_u16() as u32, sent_live: sym::any_u16() as u32, recv_live: sym::any_u16() as u32 }
    }
    fn sync_metrics(b: &SessionBytes) -> Metrics {
        Metrics { outbound_sync_bytes: b.sent_sync, inbound_sync_bytes: b.recv_sync, sent_sync_bytes: b.sent_sync, received_sync_bytes: b.recv_sync, ..Default::default() }
    }
    fn final_metrics(b: &SessionBytes) -> Metrics {
        Metrics { sent_live_bytes: b.sent_live, received_live_bytes: b.recv_live, ..sync_metrics(b) }
    }

    /// The lifecycle of one session as the sync layer emits it:
    ///   SessionStarted, SyncStarted, SyncFinished{sync metrics}, [LiveModeStarted], SessionFinished{final metrics}
    /// Step `k` of that script (k = 0..5); with `live` false the LiveModeStarted step is a no-op. In
    /// live mode an operation is received (OperationReceived carrying the live counts so far) before
    /// the session finishes.
    fn step(a: &mut Aggregator, id: u64, k: u8, b: &SessionBytes, live: bool) {
        let r = match k {
            0 => a.process(ev(id, TopicLogSyncEvent::SessionStarted)),
            1 => a.process(ev(id, TopicLogSyncEvent::SyncStarted { metrics: Metrics { outbound_sync_bytes: b.sent_sync, inbound_sync_bytes: b.recv_sync, ..Default::default() } })),
            2 => a.process(ev(id, TopicLogSyncEvent::SyncFinished { metrics: sync_metrics(b) })),
            3 => if live {
                let r = a.process(ev(id, TopicLogSyncEvent::LiveModeStarted));
                std::mem::forget(r);
                a.process(ev(id, TopicLogSyncEvent::OperationReceived { operation: Box::new(dummy_operation()), metrics: final_metrics(b) }))
            } else { None },
            _ => a.process(ev(id, TopicLogSyncEvent::SessionFinished { metrics: if live { final_metrics(b) } else { sync_metrics(b) } })),
        };
        std::mem::forget(r);
    }

    fn dummy_operation() -> Operation<()> {
        Operation { hash: p2panda_core::Hash::from_bytes([0u8; 32]), header: p2panda_core::Header::<()>::default(), body: None }
    }

    /// One complete session: totals = exactly that session's bytes, counted once.
    #[cfg_attr(kani, kani::proof)]
    #[cfg_attr(kani, kani::unwind(7))]
    pub fn one_session_counted_once() {
        let b = any_session_bytes();
        let live = sym::any_bool();
        let mut a = Aggregator::new();
        let mut k = 0;
        while k < 5 {
            step(&mut a, 1, k, &b, live);
            if k == 0 { vassert!(a.running_sessions() == 1, "C40.running-started: a started session counts as running"); }
            if k == 2 {
                vassert!(a.total_bytes_sent() == b.sent_sync && a.total_bytes_received() == b.recv_sync, "C40.after-sync: after the sync phase the totals hold exactly the sync-phase bytes");
            }
            k += 1;
        }
        let sent = b.sent_sync + if live { b.sent_live } else { 0 };
        let recv = b.recv_sync + if live { b.recv_live } else { 0 };
        witness!(live && b.sent_live > 0 && b.sent_sync > 0, "witness: a session with both sync and live traffic");
        vassert!(a.total_bytes_sent() == sent, "C40.sent-once: the sent total equals the bytes the session transferred (sync plus live), each byte counted once");
        vassert!(a.total_bytes_received() == recv, "C40.received-once: the received total equals the bytes the session transferred (sync plus live), each byte counted once");
        vassert!(a.running_sessions() == 0, "C40.running-ended: running sessions = started minus ended");
        std::mem::forget(a);
    }

    /// Two sessions whose lifecycle scripts are interleaved arbitrarily.
    #[cfg_attr(kani, kani::proof)]
    #[cfg_attr(kani, kani::unwind(12))]
    pub fn two_sessions_interleaved() {
        let b1 = any_session_bytes();
        let b2 = any_session_bytes();
        let live1 = sym::any_bool();
        let live2 = sym::any_bool();
        let mut a = Aggregator::new();
        let mut k1 = 0u8;
        let mut k2 = 0u8;
        let mut n = 0;
        let mut both_running = false;
        while n < 10 {
            // the scheduler picks which session emits its next event
            let pick_first = sym::any_bool();
            if (pick_first && k1 < 5) || k2 >= 5 { step(&mut a, 1, k1, &b1, live1); k1 += 1; }
            else { step(&mut a, 2, k2, &b2, live2); k2 += 1; }
            let started = (k1 > 0) as u32 + (k2 > 0) as u32;
            let ended = (k1 == 5) as u32 + (k2 == 5) as u32;
            if started - ended == 2 { both_running = true; }
            vassert!(a.running_sessions() == started - ended, "C40.running: the running-session count equals started minus ended sessions at every point");
            n += 1;
        }
        let sent = b1.sent_sync + if live1 { b1.sent_live } else { 0 } + b2.sent_sync + if live2 { b2.sent_live } else { 0 };
        let recv = b1.recv_sync + if live1 { b1.recv_live } else { 0 } + b2.recv_sync + if live2 { b2.recv_live } else { 0 };
        witness!(both_running, "witness: both sessions were running at the same time");
        vassert!(a.total_bytes_sent() == sent, "C40.sent-sum: the sent total equals the sum over both sessions of the bytes each transferred");
        vassert!(a.total_bytes_received() == recv, "C40.received-sum: the received total equals the sum over both sessions of the bytes each transferred");
        std::mem::forget(a);
    }

    /// A session that fails: it no longer runs, and the totals never exceed what was transferred.
    #[cfg_attr(kani, kani::proof)]
    #[cfg_attr(kani, kani::unwind(7))]
    pub fn failed_session_ends_and_is_not_overcounted() {
        let b = any_session_bytes();
        let fail_after = sym::any_below(4) + 1; // after 1..=4 lifecycle events
        let mut a = Aggregator::new();
        let mut k = 0;
        while k < 4 { if k < fail_after { step(&mut a, 1, k, &b, true); } k += 1; }
        let r = a.process(ev(1, TopicLogSyncEvent::Failed { error: String::new() }));
        std::mem::forget(r);
        vassert!(a.running_sessions() == 0, "C40.running-failed: a failed session no longer counts as running");
        vassert!(a.total_bytes_sent() <= b.sent_sync + b.sent_live && a.total_bytes_received() <= b.recv_sync + b.recv_live, "C40.failed-not-overcounted: a failed session's bytes are never counted more than once");
        if fail_after >= 3 {
            vassert!(a.total_bytes_sent() >= b.sent_sync && a.total_bytes_received() >= b.recv_sync, "C40.failed-sync-kept: bytes of a completed sync phase stay counted when the session fails later");
        }
        std::mem::forget(a);
    }

    pub fn dispatch(name: &str) -> bool {
        match name {
            "streams::sync_metrics::verif_proofs::one_session_counted_once" => one_session_counted_once(),
            "streams::sync_metrics::verif_proofs::two_sessions_interleaved" => two_sessions_interleaved(),
            "streams::sync_metrics::verif_proofs::failed_session_ends_and_is_not_overcounted" => failed_session_ends_and_is_not_overcounted(),
            _ => return false,
        }
        true
    }

    #[cfg(all(test, verif_replay, not(kani)))]
    #[test]
    fn verif_replay_entry() {
        let name = std::env::var("VERIF_HARNESS").expect("VERIF_HARNESS");
        let script = std::fs::read_to_string(std::env::var("VERIF_SCRIPT").expect("VERIF_SCRIPT")).unwrap();
        crate::sym::script::load(crate::sym::script::parse(&script));
        if !dispatch(&name) { panic!("unknown harness {name}"); }
        println!("REPLAY-DONE");
    }
}
