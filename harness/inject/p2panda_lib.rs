
// ---- appended by /verif staging (scratch copy only) ----
#[cfg(any(kani, verif_replay))]
pub const MODEL_CAP: usize = 3;
#[cfg(any(kani, verif_replay))]
pub mod sym;
#[cfg(any(kani, verif_replay))]
pub mod verif_models;

