
// ---- appended by /verif staging (scratch copy only): C36 harnesses ----
#[cfg(any(kani, verif_replay))]
pub mod verif_proofs {
    //! C36 — latest group secret is chosen deterministically and new secrets are newer.
    //! Real code: `find_latest`, `SecretBundle::{insert, extend, remove, from_secrets, generate}`,
    //! `SecretBundleState::latest`.
    use super::*;
    use crate::sym;
    use crate::{vassert, witness};

    /// SHA-256 stand-in for the secret id under the solver: the secret bytes themselves (injective).
    pub fn id_stub(s: &GroupSecret) -> GroupSecretId {
        let mut id = [0u8; SHA256_DIGEST_SIZE];
        id[0] = s.as_bytes()[0];
        id[1] = s.as_bytes()[1];
        id
    }

    pub static mut FRESH_BYTE: u8 = 0;
    pub static mut FRESH_NOW: u64 = 0;
    /// `GroupSecret::from_rng` stand-in under the solver: arbitrary fresh secret bytes, arbitrary
    /// wall-clock second as timestamp.
    pub fn from_rng_stub(_rng: &Rng) -> Result<GroupSecret, GroupSecretError> {
        let mut b = [0u8; GROUP_SECRET_SIZE];
        b[0] = unsafe { FRESH_BYTE };
        b[1] = 0xFF;
        Ok(GroupSecret(Secret::from_bytes(b), unsafe { FRESH_NOW }))
    }

    fn secret(tag: u8, ts: u64) -> GroupSecret {
        let mut b = [0u8; GROUP_SECRET_SIZE];
        b[0] = tag;
        GroupSecret(Secret::from_bytes(b), ts)
    }

    /// identity of a secret for comparisons in assertions (avoids Secret's 32-byte constant-time loop)
    fn key(s: Option<&GroupSecret>) -> Option<(u64, GroupSecretId)> { s.map(|l| (l.timestamp(), l.id())) }

    /// reference: maximum by (timestamp, id)
    fn later(a: &GroupSecret, b: &GroupSecret) -> bool { (a.timestamp(), a.id()) > (b.timestamp(), b.id()) }
    fn reference_latest<'a>(xs: &[&'a GroupSecret]) -> Option<&'a GroupSecret> {
        let mut best: Option<&GroupSecret> = None;
        let mut i = 0;
        while i < xs.len() {
            best = match best { None => Some(xs[i]), Some(b) => if later(xs[i], b) { Some(xs[i]) } else { Some(b) } };
            i += 1;
        }
        best
    }

    fn three_secrets() -> [GroupSecret; 3] {
        // distinct non-zero tags (distinct secrets have distinct ids; an all-zero SHA-256 id is infeasible)
        let t0 = sym::any_u8(); let t1 = sym::any_u8(); let t2 = sym::any_u8();
        sym::assume(t0 != 0 && t1 != 0 && t2 != 0 && t0 != t1 && t0 != t2 && t1 != t2);
        // timestamps from a small set so that collisions are frequent, plus the full range in one slot
        let ts0 = sym::any_u64(); let ts1 = sym::any_u64(); let ts2 = sym::any_u64();
        [secret(t0, ts0), secret(t1, ts1), secret(t2, ts2)]
    }

    #[cfg_attr(kani, kani::proof)]
    #[cfg_attr(kani, kani::unwind(6))]
    #[cfg_attr(kani, kani::stub(GroupSecret::id, id_stub))]
    pub fn latest_is_max_for_every_insertion_order() {
        let s = three_secrets();
        let n = sym::any_below(3) + 1; // 1..=3 secrets
        let perm = sym::any_below(6);
        let order: [usize; 3] = match perm { 0 => [0, 1, 2], 1 => [0, 2, 1], 2 => [1, 0, 2], 3 => [1, 2, 0], 4 => [2, 0, 1], _ => [2, 1, 0] };
        let mut y = SecretBundle::init();
        let mut z = SecretBundle::init();
        let mut i = 0;
        while i < 3 {
            if i < n as usize { y = SecretBundle::insert(y, s[i].clone()); }
            if order[i] < n as usize { z = SecretBundle::insert(z, s[order[i]].clone()); }
            i += 1;
        }
        let refs: [&GroupSecret; 3] = [&s[0], &s[1], &s[2]];
        let want = reference_latest(&refs[..n as usize]);
        witness!(n == 3 && s[0].timestamp() == s[1].timestamp() && s[1].timestamp() == s[2].timestamp(), "witness: three secrets with colliding timestamps");
        witness!(n == 3 && s[0].timestamp() == 0, "witness: a secret with timestamp 0");
        vassert!(key(y.latest()) == key(want), "C36.latest-max: latest is the maximum by (timestamp, id)");
        vassert!(key(z.latest()) == key(y.latest()), "C36.latest-order: latest does not depend on the insertion order");
        std::mem::forget((y, z, s));
    }

    #[cfg_attr(kani, kani::proof)]
    #[cfg_attr(kani, kani::unwind(6))]
    #[cfg_attr(kani, kani::stub(GroupSecret::id, id_stub))]
    pub fn latest_after_merge_from_secrets_and_remove() {
        let s = three_secrets();
        // merge order: {s0,s1} + {s2}  vs  {s2} + {s1,s0}
        let a = SecretBundle::insert(SecretBundle::insert(SecretBundle::init(), s[0].clone()), s[1].clone());
        let b = SecretBundle::insert(SecretBundle::init(), s[2].clone());
        let a2 = SecretBundle::insert(SecretBundle::insert(SecretBundle::init(), s[1].clone()), s[0].clone());
        let b2 = SecretBundle::insert(SecretBundle::init(), s[2].clone());
        let ab = SecretBundle::extend(a, b);
        let ba = SecretBundle::extend(b2, a2);
        let refs: [&GroupSecret; 3] = [&s[0], &s[1], &s[2]];
        let want = reference_latest(&refs);
        vassert!(key(ab.latest()) == key(want), "C36.latest-merge: after a merge latest is the maximum by (timestamp, id)");
        vassert!(key(ba.latest()) == key(ab.latest()), "C36.latest-merge-order: latest does not depend on the merge order");
        let fs = SecretBundle::from_secrets(vec![s[2].clone(), s[0].clone(), s[1].clone()]);
        vassert!(key(fs.latest()) == key(want), "C36.latest-from-secrets: from_secrets picks the maximum by (timestamp, id)");
        // removing the latest makes the runner-up latest
        let wid = want.unwrap().id();
        let (rm, removed) = SecretBundle::remove(ab, &wid);
        let rest: [&GroupSecret; 2] = if s[0].id() == wid { [&s[1], &s[2]] } else if s[1].id() == wid { [&s[0], &s[2]] } else { [&s[0], &s[1]] };
        vassert!(removed.is_some() && key(rm.latest()) == key(reference_latest(&rest)), "C36.latest-remove: after removing the latest, latest is the maximum of the rest");
        std::mem::forget((rm, removed, ba, fs, s));
    }

    /// quick-tier merge check: two single-secret bundles merged in both orders (colliding timestamps
    /// included): latest is the maximum by (timestamp, id) and independent of the merge order.
    #[cfg_attr(kani, kani::proof)]
    #[cfg_attr(kani, kani::unwind(6))]
    #[cfg_attr(kani, kani::stub(GroupSecret::id, id_stub))]
    pub fn latest_after_merging_two_bundles() {
        let s = three_secrets();
        let a = SecretBundle::insert(SecretBundle::init(), s[0].clone());
        let b = SecretBundle::insert(SecretBundle::init(), s[1].clone());
        let a2 = SecretBundle::insert(SecretBundle::init(), s[0].clone());
        let b2 = SecretBundle::insert(SecretBundle::init(), s[1].clone());
        let ab = SecretBundle::extend(a, b);
        let ba = SecretBundle::extend(b2, a2);
        let refs: [&GroupSecret; 2] = [&s[0], &s[1]];
        let want = reference_latest(&refs);
        witness!(s[0].timestamp() == s[1].timestamp(), "witness: colliding timestamps");
        vassert!(key(ab.latest()) == key(want), "C36.latest-merge-two: after merging two bundles latest is the maximum by (timestamp, id)");
        vassert!(key(ba.latest()) == key(ab.latest()), "C36.latest-merge-two-order: latest does not depend on the merge order");
        std::mem::forget((ab, ba, s));
    }

    fn generate_case(allow_max: bool) {
        let s = three_secrets();
        let n = sym::any_below(3); // 0..=2 secrets in the bundle
        let mut y = SecretBundle::init();
        if n >= 1 { y = SecretBundle::insert(y, s[0].clone()); }
        if n >= 2 { y = SecretBundle::insert(y, s[1].clone()); }
        let now = sym::any_u64();
        let fresh = sym::any_u8();
        if !allow_max {
            // u64::MAX as "latest" timestamp leaves no strictly later value: separate harness
            sym::assume(s[0].timestamp() < u64::MAX && s[1].timestamp() < u64::MAX);
        }
        unsafe { FRESH_NOW = now; FRESH_BYTE = fresh; }
        sym::clock::set_realtime(now, 0);
        #[cfg(kani)]
        let rng: Rng = unsafe { std::mem::zeroed() }; // never used: from_rng is stubbed
        #[cfg(not(kani))]
        let rng = { sym::clock::assert_fake_clock_active(); Rng::from_seed([fresh; 32]) };
        let latest_ts = y.latest().map(|l| l.timestamp());
        let g = SecretBundle::generate(&y, &rng);
        witness!(latest_ts.is_some() && now < latest_ts.unwrap(), "witness: wall clock behind the latest secret");
        witness!(latest_ts.is_some() && now == latest_ts.unwrap(), "witness: wall clock equal to the latest secret's timestamp");
        vassert!(g.is_ok(), "C36.generate-total: generate does not fail for a readable clock");
        match &g {
            Ok(g) => {
                if let Some(lt) = latest_ts {
                    vassert!(g.timestamp() > lt, "C36.generate-newer: a freshly generated secret is strictly later than the bundle's latest");
                }
                vassert!(g.timestamp() >= now, "C36.generate-not-before-now: the generated timestamp is never before the wall clock");
                let y2 = SecretBundle::insert(y, g.clone());
                vassert!(y2.latest().map(|l| l.id()) == Some(g.id()), "C36.generate-becomes-latest: once inserted, the generated secret is the latest");
                std::mem::forget(y2);
            }
            Err(_) => {}
        }
        std::mem::forget((g, s));
    }

    #[cfg_attr(kani, kani::proof)]
    #[cfg_attr(kani, kani::unwind(6))]
    #[cfg_attr(kani, kani::stub(GroupSecret::id, id_stub))]
    #[cfg_attr(kani, kani::stub(GroupSecret::from_rng, from_rng_stub))]
    pub fn generate_is_newer() { generate_case(false); }

    /// corner: a (remote-chosen) latest timestamp of u64::MAX — generate must not panic.
    #[cfg_attr(kani, kani::proof)]
    #[cfg_attr(kani, kani::unwind(6))]
    #[cfg_attr(kani, kani::stub(GroupSecret::id, id_stub))]
    #[cfg_attr(kani, kani::stub(GroupSecret::from_rng, from_rng_stub))]
    pub fn generate_with_maximal_latest_timestamp() {
        let mut y = SecretBundle::init();
        y = SecretBundle::insert(y, secret(1, u64::MAX));
        let now = sym::any_u64();
        unsafe { FRESH_NOW = now; FRESH_BYTE = 7; }
        sym::clock::set_realtime(now, 0);
        #[cfg(kani)]
        let rng: Rng = unsafe { std::mem::zeroed() };
        #[cfg(not(kani))]
        let rng = Rng::from_seed([7; 32]);
        let g = SecretBundle::generate(&y, &rng);
        vassert!(g.is_ok() || g.is_err(), "C36.generate-max-no-panic: generate returns (does not panic) when the latest timestamp is u64::MAX");
        std::mem::forget((g, y));
    }

    pub fn dispatch(name: &str) -> bool {
        match name {
            "data_scheme::group_secret::verif_proofs::latest_is_max_for_every_insertion_order" => latest_is_max_for_every_insertion_order(),
            "data_scheme::group_secret::verif_proofs::latest_after_merge_from_secrets_and_remove" => latest_after_merge_from_secrets_and_remove(),
            "data_scheme::group_secret::verif_proofs::latest_after_merging_two_bundles" => latest_after_merging_two_bundles(),
            "data_scheme::group_secret::verif_proofs::generate_is_newer" => generate_is_newer(),
            "data_scheme::group_secret::verif_proofs::generate_with_maximal_latest_timestamp" => generate_with_maximal_latest_timestamp(),
            _ => return false,
        }
        true
    }
}
