//! Harness crate "backoff" (style S2): p2panda-net/src/discovery/backoff.rs is included verbatim; the
//! harness is a child module of it and therefore sees the private fields. Serves C28.
#![allow(unused)]
#[macro_use]
pub mod sym;

pub mod unit {
    include!("staged/backoff.rs");

    pub mod proofs {
        use super::*;
        use crate::sym;
        use rand::SeedableRng;

        // ---------------------------------------------------------------- environment
        // Under Kani: Instant::{now,elapsed} and the two private random_* methods are stubbed
        // (arbitrary elapsed time, arbitrary draw inside the configured range).
        // Natively (cargo test => cfg(test)): the file under test uses mock_instant's Instant, so the
        // elapsed time is set through MockClock; the RNG is the real ChaCha20 seeded so that its next
        // increment draw is exactly the solver's value (seed search).
        pub static mut ELAPSED: Duration = Duration::ZERO;
        pub static mut DRAW_INC: Duration = Duration::ZERO;
        pub static mut DRAW_RESET: Duration = Duration::ZERO;

        #[cfg(kani)]
        pub fn now_stub() -> std::time::Instant { unsafe { std::mem::zeroed() } }
        #[cfg(kani)]
        pub fn elapsed_stub(_i: &std::time::Instant) -> Duration { unsafe { ELAPSED } }
        pub fn inc_stub(_b: &mut Backoff) -> Duration { unsafe { DRAW_INC } }
        pub fn reset_stub(_b: &mut Backoff) -> Duration { unsafe { DRAW_RESET } }

        /// Arbitrary duration with millisecond granularity, built without any division.
        fn any_duration() -> Duration {
            let secs = sym::any_u32() as u64;
            let millis = sym::any_u16() as u32;
            sym::assume(millis < 1000);
            Duration::new(secs, millis * 1_000_000)
        }

        /// A Backoff in an arbitrary state satisfying the representation invariant
        /// initial <= value <= max, min_reset <= reset_after < max_reset, with the environment set up so
        /// that the next increment draw is `inc`, the next reset draw is `rst` and `elapsed` has passed.
        fn arbitrary_backoff(config: Config) -> (Backoff, Duration, Duration, Duration) {
            let v = any_duration();
            let ra = any_duration();
            let inc = any_duration();
            let rst = any_duration();
            let elapsed = any_duration();
            sym::assume(v >= config.initial_value && v <= config.max_value);
            sym::assume(ra >= config.min_reset && ra < config.max_reset);
            sym::assume(inc >= config.min_increment && inc < config.max_increment);
            sym::assume(rst >= config.min_reset && rst < config.max_reset);
            unsafe { ELAPSED = elapsed; DRAW_INC = inc; DRAW_RESET = rst; }
            #[cfg(kani)]
            let rng: ChaCha20Rng = unsafe { std::mem::zeroed() }; // never used: both random_* methods are stubbed
            #[cfg(not(kani))]
            let rng = {
                // find a seed whose draw right after `new` (which draws one reset value) is `inc`
                let mut seed = 0u64;
                loop {
                    let mut probe = Backoff::new(config.clone(), ChaCha20Rng::seed_from_u64(seed));
                    if probe.random_increment() == inc { break; }
                    seed += 1;
                    if seed > 20_000_000 { println!("REPLAY-ENV-FAILED no seed"); std::process::exit(104); }
                }
                ChaCha20Rng::seed_from_u64(seed)
            };
            let mut b = Backoff::new(config, rng);
            b.value = v;
            b.reset_after = ra;
            #[cfg(not(kani))]
            mock_instant::thread_local::MockClock::advance(elapsed);
            (b, v, inc, elapsed)
        }

        /// Any config in whole seconds (< 2^16 s) with initial <= max, min_inc < max_inc, min_reset < max_reset.
        fn any_config() -> Config {
            let initial = sym::any_u16() as u64;
            let max = sym::any_u16() as u64;
            let min_inc = sym::any_u16() as u64;
            let max_inc = sym::any_u16() as u64;
            let min_reset = sym::any_u16() as u64;
            let max_reset = sym::any_u16() as u64;
            sym::assume(initial <= max && min_inc < max_inc && min_reset < max_reset);
            Config {
                initial_value: Duration::from_secs(initial),
                min_increment: Duration::from_secs(min_inc),
                max_increment: Duration::from_secs(max_inc),
                max_value: Duration::from_secs(max),
                min_reset: Duration::from_secs(min_reset),
                max_reset: Duration::from_secs(max_reset),
            }
        }

        fn step(config: Config) {
            let cfg = config.clone();
            let (mut b, v, inc, elapsed) = arbitrary_backoff(config);
            let ra = b.reset_after;
            b.increment();
            witness!(elapsed >= ra, "witness: reset interval elapsed");
            witness!(elapsed < ra && v + inc > cfg.max_value, "witness: increment would overshoot the maximum");
            vassert!(b.value >= cfg.initial_value, "C28.lower: the delay is never below the initial value");
            vassert!(b.value <= cfg.max_value, "C28.upper: the delay is never above the configured maximum");
            if elapsed >= ra {
                vassert!(b.value == cfg.initial_value, "C28.reset: once the reset interval has elapsed the delay returns to the initial value");
            } else if v < cfg.max_value && inc > Duration::ZERO {
                vassert!(b.value > v, "C28.grows: below the maximum and before the reset interval an increment increases the delay");
            }
            vassert!(b.reset_after >= cfg.min_reset && b.reset_after < cfg.max_reset, "C28.reset-interval: the reset interval stays inside its configured range");
            std::mem::forget(b);
        }

        macro_rules! stubs { ($(#[$m:meta])* pub fn $name:ident() $body:block) => {
            #[cfg_attr(kani, kani::proof)]
            #[cfg_attr(kani, kani::unwind(5))]
            #[cfg_attr(kani, kani::stub(std::time::Instant::now, now_stub))]
            #[cfg_attr(kani, kani::stub(std::time::Instant::elapsed, elapsed_stub))]
            #[cfg_attr(kani, kani::stub(Backoff::random_increment, inc_stub))]
            #[cfg_attr(kani, kani::stub(Backoff::random_reset_after, reset_stub))]
            $(#[$m])*
            pub fn $name() $body
        }; }

        stubs! { pub fn step_default_config() { step(Config::default()); } }
        stubs! { pub fn step_any_config() { step(any_config()); } }
        stubs! {
            /// explicit reset() and new(): back at the initial value
            pub fn new_and_reset_start_at_initial() {
                let cfg = any_config();
                let (mut b, _, _, _) = arbitrary_backoff(cfg.clone());
                b.reset();
                vassert!(b.value == cfg.initial_value, "C28.explicit-reset: reset() returns the delay to the initial value");
                #[cfg(kani)]
                let rng: ChaCha20Rng = unsafe { std::mem::zeroed() };
                #[cfg(not(kani))]
                let rng = ChaCha20Rng::seed_from_u64(1);
                let n = Backoff::new(cfg.clone(), rng);
                vassert!(n.value == cfg.initial_value, "C28.new: a new backoff starts at the initial value");
                std::mem::forget(b); std::mem::forget(n);
            }
        }
    }
}

#[cfg(all(test, not(kani)))]
mod replay_entry {
    #[test]
    fn verif_replay_entry() {
        let name = std::env::var("VERIF_HARNESS").expect("VERIF_HARNESS");
        let script = std::fs::read_to_string(std::env::var("VERIF_SCRIPT").expect("VERIF_SCRIPT")).unwrap();
        crate::sym::script::load(crate::sym::script::parse(&script));
        match name.as_str() {
            "unit::proofs::step_default_config" => crate::unit::proofs::step_default_config(),
            "unit::proofs::step_any_config" => crate::unit::proofs::step_any_config(),
            "unit::proofs::new_and_reset_start_at_initial" => crate::unit::proofs::new_and_reset_start_at_initial(),
            other => panic!("unknown harness {other}"),
        }
        println!("REPLAY-DONE");
    }
}
