//! Harness crate "dedup" (style S2): p2panda-sync/src/dedup.rs mounted verbatim, std HashSet/VecDeque
//! redirected to contract models under the solver. Serves C24.
#![allow(unused)]
pub const MODEL_CAP: usize = 5;
#[macro_use]
pub mod sym;
#[path = "collections.rs"]
pub mod verif_models;
#[path = "staged/dedup.rs"]
pub mod dedup;

use dedup::DeduplicationBuffer;

/// Reference: shift register holding the last `cap` distinct accepted items.
fn check(cap: usize, steps: usize) { check_alpha(cap, steps, 4) }

/// same with an alphabet of `alpha` letters (capacity 4 needs 5 letters for an eviction to happen)
fn check_alpha(cap: usize, steps: usize, alpha: u8) {
    let mut d: DeduplicationBuffer<u8> = DeduplicationBuffer::new(cap);
    let mut reg: [Option<u8>; 4] = [None; 4];
    let mut n = 0usize;
    let mut step = 0;
    let mut evictions = 0u8;
    let mut dups = 0u8;
    while step < steps {
        let x = sym::any_below(alpha);
        let mut present = false;
        let mut i = 0;
        while i < n { if reg[i] == Some(x) { present = true; } i += 1; }
        vassert!(d.contains(&x) == present, "C24.contains: contains() is true exactly for the last `capacity` distinct inserted items");
        let inserted = d.insert(x);
        vassert!(inserted == !present, "C24.duplicate: insert reports a duplicate exactly when the item is among the last `capacity` distinct inserted items");
        if inserted {
            if n == cap {
                let mut i = 1;
                while i < n { reg[i - 1] = reg[i]; i += 1; }
                reg[n - 1] = Some(x);
                evictions += 1;
            } else {
                reg[n] = Some(x);
                n += 1;
            }
        } else { dups += 1; }
        // never holds more than `capacity` items: count the alphabet letters it still reports
        let mut held = 0;
        let mut c = 0u8;
        while c < alpha { if d.contains(&c) { held += 1; } c += 1; }
        vassert!(held <= cap, "C24.capacity: the buffer never holds more than `capacity` items");
        vassert!(held == n, "C24.exact: the buffer holds exactly the reference window");
        step += 1;
    }
    witness!(evictions >= 2, "witness: at least two evictions happened");
    witness!(dups >= 1 && evictions >= 1, "witness: a duplicate and an eviction in one sequence");
    std::mem::forget(d);
}

#[cfg_attr(kani, kani::proof)] #[cfg_attr(kani, kani::unwind(8))] pub fn cap1_len5() { check(1, 5); }
#[cfg_attr(kani, kani::proof)] #[cfg_attr(kani, kani::unwind(8))] pub fn cap2_len5() { check(2, 5); }
#[cfg_attr(kani, kani::proof)] #[cfg_attr(kani, kani::unwind(8))] pub fn cap3_len5() { check(3, 5); }
#[cfg_attr(kani, kani::proof)] #[cfg_attr(kani, kani::unwind(9))] pub fn cap2_len7() { check(2, 7); }
#[cfg_attr(kani, kani::proof)] #[cfg_attr(kani, kani::unwind(9))] pub fn cap3_len7() { check(3, 7); }
#[cfg_attr(kani, kani::proof)] #[cfg_attr(kani, kani::unwind(9))] pub fn cap4_len7() { check_alpha(4, 7, 5); }

#[cfg(all(test, not(kani)))]
mod replay_entry {
    #[test]
    fn verif_replay_entry() {
        let name = std::env::var("VERIF_HARNESS").expect("VERIF_HARNESS");
        let script = std::fs::read_to_string(std::env::var("VERIF_SCRIPT").expect("VERIF_SCRIPT")).unwrap();
        crate::sym::script::load(crate::sym::script::parse(&script));
        match name.as_str() {
            "cap1_len5" => crate::cap1_len5(), "cap2_len5" => crate::cap2_len5(), "cap3_len5" => crate::cap3_len5(),
            "cap2_len7" => crate::cap2_len7(), "cap3_len7" => crate::cap3_len7(), "cap4_len7" => crate::cap4_len7(),
            other => panic!("unknown harness {other}"),
        }
        println!("REPLAY-DONE");
    }
}
