//! Harness crate "hs" (style S2): p2panda-sync/src/protocols/topic_handshake.rs and src/traits.rs
//! mounted verbatim; `futures_channel::mpsc` resolves to a recording model; the real
//! `futures_util::{SinkExt, StreamExt}` drive scripted transport ends. Serves C25.
#![allow(unused)]
#[macro_use]
pub mod sym;
// shims for the three crate-root types `traits.rs` names in signatures that the handshake never touches
#[derive(Clone, Debug)] pub struct SessionConfig<T> { pub topic: T }
#[derive(Clone, Debug)] pub enum ToSync<M> { Payload(M), Close }
#[derive(Clone, Debug, PartialEq)] pub struct FromSync<E> { pub event: E }
#[path = "staged/traits.rs"]
pub mod traits;
#[path = "staged/topic_handshake.rs"]
pub mod topic_handshake;

pub mod c25 {
    use crate::sym;
    use crate::topic_handshake::*;
    use crate::traits::Protocol;
    use futures_util::{Sink, Stream};
    use std::future::Future;
    use std::pin::Pin;
    use std::task::{Context, Poll, Waker};

    pub type Msg = TopicHandshakeMessage<u8>;
    pub const N: usize = 3;

    /// Inbound transcript: items are delivered front to back; `None` = the stream has ended.
    pub struct Script { pub items: [Option<Result<Msg, ()>>; N], pub pos: usize }
    impl Stream for Script {
        type Item = Result<Msg, ()>;
        fn poll_next(mut self: Pin<&mut Self>, _cx: &mut Context<'_>) -> Poll<Option<Self::Item>> {
            let this = &mut *self;
            if this.pos < N { let it = this.items[this.pos].take(); this.pos += 1; Poll::Ready(it) } else { Poll::Ready(None) }
        }
    }
    /// Outbound end: records what was sent; fails at the `fail_at`-th send if that is < 4.
    pub struct Rec { pub sent: [Option<Msg>; 4], pub n: usize, pub fail_at: usize }
    impl Sink<Msg> for Rec {
        type Error = ();
        fn poll_ready(self: Pin<&mut Self>, _cx: &mut Context<'_>) -> Poll<Result<(), ()>> { if self.n == self.fail_at { Poll::Ready(Err(())) } else { Poll::Ready(Ok(())) } }
        fn start_send(mut self: Pin<&mut Self>, item: Msg) -> Result<(), ()> { let n = self.n; if n < 4 { self.sent[n] = Some(item); self.n = n + 1; } Ok(()) }
        fn poll_flush(self: Pin<&mut Self>, _cx: &mut Context<'_>) -> Poll<Result<(), ()>> { Poll::Ready(Ok(())) }
        fn poll_close(self: Pin<&mut Self>, _cx: &mut Context<'_>) -> Poll<Result<(), ()>> { Poll::Ready(Ok(())) }
    }

    /// One transcript item: Topic(t) | Done | transport error | end of stream
    fn any_item() -> Option<Result<Msg, ()>> {
        let k = sym::any_below(4);
        let t = sym::any_u8();
        match k { 0 => Some(Ok(TopicHandshakeMessage::Topic(t))), 1 => Some(Ok(TopicHandshakeMessage::Done)), 2 => Some(Err(())), _ => None }
    }
    pub fn fmt_stub(_args: std::fmt::Arguments<'_>) -> String { String::new() }

    fn poll_once<F: Future + ?Sized>(f: Pin<&mut F>) -> Poll<F::Output> {
        let waker = Waker::noop();
        let mut cx = Context::from_waker(&waker);
        f.poll(&mut cx)
    }
    type Events = futures_channel::mpsc::Sender<TopicHandshakeEvent<u8>>;

    /// Acceptor against EVERY inbound transcript of three items and every topic value.
    #[cfg_attr(kani, kani::proof)]
    #[cfg_attr(kani, kani::unwind(5))]
    #[cfg_attr(kani, kani::stub(std::fmt::format, crate::c25::fmt_stub))]
    pub fn acceptor_outputs_initiators_topic_or_errs() {
        let i0 = any_item(); let i1 = any_item(); let i2 = any_item();
        let first_topic = match &i0 { Some(Ok(TopicHandshakeMessage::Topic(t))) => Some(*t), _ => None };
        let second_done = matches!(&i1, Some(Ok(TopicHandshakeMessage::Done)));
        let mut stream = Script { items: [i0, i1, i2], pos: 0 };
        let mut sink = Rec { sent: [None, None, None, None], n: 0, fail_at: usize::MAX };
        let acc = TopicHandshakeAcceptor::<u8, TopicHandshakeEvent<u8>>::new(Events::new_model());
        let r = { let mut fut = std::pin::pin!(acc.run(&mut sink, &mut stream)); poll_once(fut.as_mut()) };
        let honest = first_topic.is_some() && second_done;
        witness!(honest, "witness: an honest transcript");
        witness!(r.is_ready() && !honest, "witness: a misbehaving peer is answered with an error");
        vassert!(r.is_ready(), "C25.acceptor-no-hang: the acceptor returns instead of hanging for every transcript");
        match r {
            Poll::Ready(Ok(t)) => {
                vassert!(first_topic == Some(t), "C25.acceptor-topic: the acceptor outputs exactly the topic the initiator sent");
                vassert!(second_done, "C25.acceptor-needs-done: the acceptor only completes after the initiator's Done");
                vassert!(sink.n == 1 && sink.sent[0] == Some(TopicHandshakeMessage::Done), "C25.acceptor-sends-done: the acceptor answers with exactly one Done");
            }
            Poll::Ready(Err(e)) => { vassert!(!honest, "C25.acceptor-completes: an honest transcript completes"); std::mem::forget(e); }
            Poll::Pending => {}
        }
    }

    /// Initiator against every inbound transcript.
    #[cfg_attr(kani, kani::proof)]
    #[cfg_attr(kani, kani::unwind(5))]
    #[cfg_attr(kani, kani::stub(std::fmt::format, crate::c25::fmt_stub))]
    pub fn initiator_completes_or_errs() {
        let topic = sym::any_u8();
        let i0 = any_item(); let i1 = any_item();
        let first_done = matches!(&i0, Some(Ok(TopicHandshakeMessage::Done)));
        let mut stream = Script { items: [i0, i1, None], pos: 0 };
        let mut sink = Rec { sent: [None, None, None, None], n: 0, fail_at: usize::MAX };
        let ini = TopicHandshakeInitiator::<u8, TopicHandshakeEvent<u8>>::new(topic, Events::new_model());
        let r = { let mut fut = std::pin::pin!(ini.run(&mut sink, &mut stream)); poll_once(fut.as_mut()) };
        witness!(first_done, "witness: the acceptor answers Done");
        vassert!(r.is_ready(), "C25.initiator-no-hang: the initiator returns instead of hanging for every transcript");
        vassert!(sink.n >= 1 && sink.sent[0] == Some(TopicHandshakeMessage::Topic(topic)), "C25.initiator-sends-topic: the initiator first sends exactly its topic");
        match r {
            Poll::Ready(Ok(())) => {
                vassert!(first_done, "C25.initiator-needs-done: the initiator only completes after the acceptor's Done");
                vassert!(sink.n == 2 && sink.sent[1] == Some(TopicHandshakeMessage::Done), "C25.initiator-sends-done: the initiator closes with exactly one Done");
            }
            Poll::Ready(Err(e)) => { vassert!(!first_done, "C25.initiator-completes: an honest transcript completes"); std::mem::forget(e); }
            Poll::Pending => {}
        }
    }

    /// Both real sides, composed through their recorded transcripts: what the initiator sends (given
    /// the acceptor's Done) is fed to the acceptor, which must output the initiator's topic.
    #[cfg_attr(kani, kani::proof)]
    #[cfg_attr(kani, kani::unwind(5))]
    #[cfg_attr(kani, kani::stub(std::fmt::format, crate::c25::fmt_stub))]
    pub fn both_sides_agree_on_the_topic() {
        let topic = sym::any_u8();
        let mut i_in = Script { items: [Some(Ok(TopicHandshakeMessage::Done)), None, None], pos: 0 };
        let mut i_out = Rec { sent: [None, None, None, None], n: 0, fail_at: usize::MAX };
        let ini = TopicHandshakeInitiator::<u8, TopicHandshakeEvent<u8>>::new(topic, Events::new_model());
        let ri = { let mut fut = std::pin::pin!(ini.run(&mut i_out, &mut i_in)); poll_once(fut.as_mut()) };
        vassert!(matches!(ri, Poll::Ready(Ok(()))), "C25.both-initiator-done: the initiator completes against an honest acceptor");
        std::mem::forget(ri);
        let mut a_in = Script { items: [i_out.sent[0].take().map(Ok), i_out.sent[1].take().map(Ok), None], pos: 0 };
        let mut a_out = Rec { sent: [None, None, None, None], n: 0, fail_at: usize::MAX };
        let acc = TopicHandshakeAcceptor::<u8, TopicHandshakeEvent<u8>>::new(Events::new_model());
        let ra = { let mut fut = std::pin::pin!(acc.run(&mut a_out, &mut a_in)); poll_once(fut.as_mut()) };
        let ok = matches!(&ra, Poll::Ready(Ok(t)) if *t == topic);
        std::mem::forget(ra);
        vassert!(ok, "C25.both-topic: the acceptor outputs exactly the initiator's topic and both sides complete");
        vassert!(a_out.sent[0] == Some(TopicHandshakeMessage::Done), "C25.both-done: the acceptor's answer is the Done the initiator waits for");
    }

    /// A failing transport sink at any send: error, never a hang or a wrong topic.
    #[cfg_attr(kani, kani::proof)]
    #[cfg_attr(kani, kani::unwind(5))]
    #[cfg_attr(kani, kani::stub(std::fmt::format, crate::c25::fmt_stub))]
    pub fn failing_sink_is_an_error() {
        let topic = sym::any_u8();
        let fail_at = sym::any_below(2) as usize;
        let as_initiator = sym::any_bool();
        if as_initiator {
            let mut stream = Script { items: [Some(Ok(TopicHandshakeMessage::Done)), None, None], pos: 0 };
            let mut sink = Rec { sent: [None, None, None, None], n: 0, fail_at };
            let ini = TopicHandshakeInitiator::<u8, TopicHandshakeEvent<u8>>::new(topic, Events::new_model());
            let r = { let mut fut = std::pin::pin!(ini.run(&mut sink, &mut stream)); poll_once(fut.as_mut()) };
            let is_err = matches!(&r, Poll::Ready(Err(_)));
            std::mem::forget(r);
            vassert!(is_err, "C25.sink-failure-initiator: a failing sink makes the initiator return an error");
        } else {
            let mut stream = Script { items: [Some(Ok(TopicHandshakeMessage::Topic(topic))), Some(Ok(TopicHandshakeMessage::Done)), None], pos: 0 };
            let mut sink = Rec { sent: [None, None, None, None], n: 0, fail_at: 0 };
            let acc = TopicHandshakeAcceptor::<u8, TopicHandshakeEvent<u8>>::new(Events::new_model());
            let r = { let mut fut = std::pin::pin!(acc.run(&mut sink, &mut stream)); poll_once(fut.as_mut()) };
            let is_err = matches!(&r, Poll::Ready(Err(_)));
            std::mem::forget(r);
            vassert!(is_err, "C25.sink-failure-acceptor: a failing sink makes the acceptor return an error");
        }
    }

    pub fn dispatch(name: &str) -> bool {
        match name {
            "c25::acceptor_outputs_initiators_topic_or_errs" => acceptor_outputs_initiators_topic_or_errs(),
            "c25::initiator_completes_or_errs" => initiator_completes_or_errs(),
            "c25::both_sides_agree_on_the_topic" => both_sides_agree_on_the_topic(),
            "c25::failing_sink_is_an_error" => failing_sink_is_an_error(),
            _ => return false,
        }
        true
    }
}

#[cfg(all(test, not(kani)))]
mod replay_entry {
    #[test]
    fn verif_replay_entry() {
        let name = std::env::var("VERIF_HARNESS").expect("VERIF_HARNESS");
        let script = std::fs::read_to_string(std::env::var("VERIF_SCRIPT").expect("VERIF_SCRIPT")).unwrap();
        crate::sym::script::load(crate::sym::script::parse(&script));
        if !crate::c25::dispatch(&name) { panic!("unknown harness {name}"); }
        println!("REPLAY-DONE");
    }
}
