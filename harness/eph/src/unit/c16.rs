//! C16 — ephemeral messages are authentic and unique per publish.
//! Real code: `WrappedMessage::{new, sign, verify, to_bytes}`, `EphemeralStreamPublisher::publish`
//! (p2panda/src/streams/ephemeral_stream.rs), `HybridTimestamp::increment` (p2panda-core).
use super::*;
use crate::sym;

// ---------------------------------------------------------------------------------------------
// Idealised Ed25519 (EUF-CMA): `SigningKey::sign` records (key id, message bytes) and returns a fresh
// arbitrary signature; `VerifyingKey::verify` accepts exactly the recorded triple. CBOR -> model codec.
// Natively real Ed25519 + ciborium.
// ---------------------------------------------------------------------------------------------
pub const MAXMSG: usize = 200;
pub static mut SIGNED_LEN: usize = usize::MAX;
pub static mut SIGNED_MSG: [u8; MAXMSG] = [0; MAXMSG];
pub static mut SIGNED_SIG: [u8; 64] = [0; 64];
pub static mut NEXT_SIG: [u8; 64] = [0; 64];

pub fn author_key(i: u8) -> VerifyingKey {
    #[cfg(kani)]
    {
        let k = VerifyingKey::default();
        if i != 0 { let p = k.as_bytes().as_ptr() as *mut u8; unsafe { std::ptr::write_bytes(p, i, 32); } }
        k
    }
    #[cfg(not(kani))]
    { SigningKey::from_bytes(&[i.wrapping_add(1); 32]).verifying_key() }
}

pub fn sign_stub(_sk: &SigningKey, bytes: &[u8]) -> Signature {
    unsafe {
        assert!(bytes.len() <= MAXMSG, "model: signed message fits the oracle buffer");
        SIGNED_LEN = bytes.len();
        let mut i = 0;
        while i < bytes.len() { SIGNED_MSG[i] = bytes[i]; i += 1; }
        SIGNED_SIG = NEXT_SIG;
        Signature::from_bytes(&NEXT_SIG)
    }
}
pub fn verifying_key_stub(_sk: &SigningKey) -> VerifyingKey { author_key(0) }
pub fn verify_stub(key: &VerifyingKey, bytes: &[u8], signature: &Signature) -> bool {
    unsafe {
        if SIGNED_LEN == usize::MAX || bytes.len() != SIGNED_LEN { return false; }
        if *key != author_key(0) { return false; }
        let sb = signature.to_bytes();
        let mut i = 0;
        while i < 64 { if sb[i] != SIGNED_SIG[i] { return false; } i += 1; }
        let mut i = 0;
        while i < bytes.len() { if bytes[i] != SIGNED_MSG[i] { return false; } i += 1; }
        true
    }
}
pub fn encode_cbor_stub<T: serde::Serialize>(value: &T) -> Result<Vec<u8>, EncodeError> {
    match crate::mcodec::to_vec(value) {
        Ok(v) => Ok(v),
        // the model codec supports every type these harnesses encode; cutting the error path here keeps
        // io::Error's recursive drop glue (reachable through EncodeError) out of the formula
        Err(_) => { crate::sym::assume(false); unreachable!() }
    }
}
pub fn cte32_stub(a: &[u8; 32], b: &[u8; 32]) -> bool { let mut i = 0; let mut eq = true; while i < 32 { if a[i] != b[i] { eq = false; } i += 1; } eq }

fn signing_key() -> SigningKey {
    #[cfg(kani)]
    { unsafe { std::mem::zeroed() } } // never inspected: sign / verifying_key are stubbed
    #[cfg(not(kani))]
    { SigningKey::from_bytes(&[1u8; 32]) }
}

macro_rules! c16_stubs { ($(#[$m:meta])* pub fn $name:ident() $body:block) => {
    #[cfg_attr(kani, kani::proof)]
    #[cfg_attr(kani, kani::unwind(210))]
    #[cfg_attr(kani, kani::stub(p2panda_core::cbor::encode_cbor, crate::unit::c16::encode_cbor_stub))]
    #[cfg_attr(kani, kani::stub(p2panda_core::SigningKey::sign, crate::unit::c16::sign_stub))]
    #[cfg_attr(kani, kani::stub(p2panda_core::SigningKey::verifying_key, crate::unit::c16::verifying_key_stub))]
    #[cfg_attr(kani, kani::stub(p2panda_core::VerifyingKey::verify, crate::unit::c16::verify_stub))]
    #[cfg_attr(kani, kani::stub(constant_time_eq::constant_time_eq_32, crate::unit::c16::cte32_stub))]
    #[cfg_attr(kani, kani::stub(p2panda_core::timestamp::Timestamp::now, crate::unit::c16::timestamp_now_stub))]
    $(#[$m])*
    pub fn $name() $body
}; }

c16_stubs! {
    /// A signed message verifies; any single-field change makes verification fail.
    pub fn tampered_message_is_rejected() {
        let body = sym::any_u8();
        let ts = sym::any_u64();
        let lamport = sym::any_u64();
        let sig = sym::any_bytes::<64>();
        unsafe { NEXT_SIG = sig; }
        // (SigningKey zeroises itself on drop: volatile byte loop, not the subject)
        let sk = std::mem::ManuallyDrop::new(signing_key());
        let msg: WrappedMessage<u8> = WrappedMessage::new(body, HybridTimestamp::from_parts(Timestamp::new(ts), LamportTimestamp::new(lamport)), &sk).unwrap();
        let mut t = msg.clone();
        let which = sym::any_below(7);
        let v64 = sym::any_u64();
        let v8 = sym::any_u8();
        let pos = sym::any_below(64);
        match which {
            0 => {}
            1 => { sym::assume(v64 != msg.version); t.version = v64; }
            2 => { sym::assume(v64 != ts); t.timestamp = HybridTimestamp::from_parts(Timestamp::new(v64), LamportTimestamp::new(lamport)); }
            3 => { sym::assume(v64 != lamport); t.timestamp = HybridTimestamp::from_parts(Timestamp::new(ts), LamportTimestamp::new(v64)); }
            4 => { sym::assume(v8 != body); t.body = v8; }
            5 => { t.verifying_key = author_key(1); }
            _ => { sym::assume(v8 != 0); let mut sb = msg.signature.to_bytes(); sb[pos as usize] ^= v8; t.signature = Signature::from_bytes(&sb); }
        }
        let r = t.verify();
        let ok = r.is_ok();
        std::mem::forget(r); // the error type's drop glue reaches io::Error (recursive, explodes under the solver)
        witness!(ok, "witness: the untampered message verifies");
        if which == 0 {
            vassert!(ok, "C16.accept-honest: an honestly signed message verifies");
        } else {
            vassert!(!ok, "C16.tamper: a message changed in version, timestamp, logical clock, body, author or signature does not verify");
        }
    }
}

// ---------------------------------------------------------------------------------------------
// publish(): timestamps strictly increase for ANY pair of wall-clock readings.
// ---------------------------------------------------------------------------------------------
pub static mut NOW_MICROS: u64 = 0;
pub fn timestamp_now_stub() -> Timestamp { Timestamp::new(unsafe { NOW_MICROS }) }
fn set_clock(v: u64) {
    unsafe { NOW_MICROS = v; }
    #[cfg(not(kani))]
    mock_instant::thread_local::MockClock::set_system_time(std::time::Duration::from_micros(v));
}
fn poll_once<F: std::future::Future + ?Sized>(f: Pin<&mut F>) -> Poll<F::Output> {
    let waker = std::task::Waker::noop();
    let mut cx = Context::from_waker(&waker);
    f.poll(&mut cx)
}

/// encoding is not the subject of the publish harness (it is in the tamper harness): constant bytes
pub fn encode_cbor_trivial<T: serde::Serialize>(_value: &T) -> Result<Vec<u8>, EncodeError> { Ok(vec![0u8]) }
pub fn sign_trivial(_sk: &SigningKey, _bytes: &[u8]) -> Signature { Signature::from_bytes(&[3u8; 64]) }

#[cfg_attr(kani, kani::proof)]
#[cfg_attr(kani, kani::unwind(6))]
#[cfg_attr(kani, kani::stub(p2panda_core::cbor::encode_cbor, crate::unit::c16::encode_cbor_trivial))]
#[cfg_attr(kani, kani::stub(p2panda_core::SigningKey::sign, crate::unit::c16::sign_trivial))]
#[cfg_attr(kani, kani::stub(p2panda_core::SigningKey::verifying_key, crate::unit::c16::verifying_key_stub))]
#[cfg_attr(kani, kani::stub(p2panda_core::timestamp::Timestamp::now, crate::unit::c16::timestamp_now_stub))]
pub fn successive_publishes_have_increasing_timestamps() {
    {
        let t0 = sym::any_u64();
        let l0 = sym::any_u64();
        sym::assume(l0 < u64::MAX - 2);
        let now1 = sym::any_u64();
        let now2 = sym::any_u64();
        unsafe { NEXT_SIG = [3u8; 64]; }
        let handle = p2panda_net::gossip::GossipHandle::default();
        let publisher: EphemeralStreamPublisher<u8> = EphemeralStreamPublisher {
            topic: Topic::from([0u8; 32]),
            forge: crate::forge::OperationForge { key: Arc::new(signing_key()) },
            inner: handle.clone(),
            timestamp: Arc::new(Mutex::new(HybridTimestamp::from_parts(Timestamp::new(t0), LamportTimestamp::new(l0)))),
            _marker: PhantomData,
        };
        let before = *publisher.timestamp.lock().unwrap();
        set_clock(now1);
        { let mut f = std::pin::pin!(publisher.publish(1)); let r = poll_once(f.as_mut()); let ok = matches!(r, Poll::Ready(Ok(()))); std::mem::forget(r); vassert!(ok, "C16.publish-ok: publish completes"); }
        let first = *publisher.timestamp.lock().unwrap();
        set_clock(now2);
        { let mut f = std::pin::pin!(publisher.publish(1)); let r = poll_once(f.as_mut()); let ok = matches!(r, Poll::Ready(Ok(()))); std::mem::forget(r); vassert!(ok, "C16.publish-ok: publish completes"); }
        let second = *publisher.timestamp.lock().unwrap();
        witness!(now2 < now1, "witness: the wall clock stepped backwards between two publishes");
        vassert!(first > before, "C16.timestamp-increases: a publish carries a timestamp strictly greater than the previous one");
        vassert!(second > first, "C16.timestamp-increases-again: successive publishes carry strictly increasing timestamps for any clock readings");
        let n = handle.published.borrow().len();
        vassert!(n == 2, "C16.published: every publish hands exactly one message to the gossip overlay");
        std::mem::forget(publisher);
        std::mem::forget(handle);
    }
}

pub fn dispatch(name: &str) -> bool {
    match name {
        "unit::c16::tampered_message_is_rejected" => tampered_message_is_rejected(),
        "unit::c16::successive_publishes_have_increasing_timestamps" => successive_publishes_have_increasing_timestamps(),
        _ => return false,
    }
    true
}
