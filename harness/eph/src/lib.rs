//! Harness crate "eph" (style S2): p2panda/src/streams/ephemeral_stream.rs included verbatim.
//! `p2panda_net::gossip` and `tracing` resolve to contract models; `crate::forge` is a shim holding the
//! signing key. Serves C17 (subscription never stalls) and C16 (authentic + unique messages).
#![allow(unused, static_mut_refs)]
#[macro_use]
pub mod sym;
pub mod mcodec;

/// Contract model of `std::sync::Mutex` for the single-threaded harnesses (std's futex-based lock
/// makes CBMC unwind its contended-lock spin loop): mutual exclusion, never poisoned.
pub mod verif_sync {
    use std::cell::{Cell, UnsafeCell};
    #[derive(Debug)]
    pub struct Mutex<T> { locked: Cell<bool>, v: UnsafeCell<T> }
    pub struct MutexGuard<'a, T> { m: &'a Mutex<T> }
    #[derive(Debug)]
    pub struct WouldDeadlock;
    impl<T> Mutex<T> {
        pub fn new(v: T) -> Self { Self { locked: Cell::new(false), v: UnsafeCell::new(v) } }
        pub fn lock(&self) -> Result<MutexGuard<'_, T>, WouldDeadlock> {
            if self.locked.get() { return Err(WouldDeadlock); }
            self.locked.set(true);
            Ok(MutexGuard { m: self })
        }
    }
    impl<'a, T> std::ops::Deref for MutexGuard<'a, T> { type Target = T; fn deref(&self) -> &T { unsafe { &*self.m.v.get() } } }
    impl<'a, T> std::ops::DerefMut for MutexGuard<'a, T> { fn deref_mut(&mut self) -> &mut T { unsafe { &mut *self.m.v.get() } } }
    impl<'a, T> Drop for MutexGuard<'a, T> { fn drop(&mut self) { self.m.locked.set(false); } }
}

/// shim for `crate::forge::{Forge, OperationForge}`: only the signing-key accessor is used by the unit
pub mod forge {
    use p2panda_core::{SigningKey, VerifyingKey};
    pub trait Forge<TP, C, E> {
        fn signing_key(&self) -> &SigningKey;
        fn verifying_key(&self) -> VerifyingKey;
    }
    #[derive(Clone, Debug)]
    pub struct OperationForge { pub key: std::sync::Arc<SigningKey> }
    impl Forge<p2panda_core::Topic, (), ()> for OperationForge {
        fn signing_key(&self) -> &SigningKey { &self.key }
        fn verifying_key(&self) -> VerifyingKey { self.key.verifying_key() }
    }
}

pub mod unit {
    include!("staged/ephemeral_stream.rs");

    pub mod proofs {
        use super::*;
        use crate::sym;
        use p2panda_net::gossip::{GossipSubscription, Lagged, SCRIPT_LEN};
        use std::sync::atomic::{AtomicUsize, Ordering};
        use std::task::{RawWaker, RawWakerVTable, Waker};

        // ------------------------------------------------------------------ counting waker
        static WAKES: AtomicUsize = AtomicUsize::new(0);
        fn vt_clone(p: *const ()) -> RawWaker { RawWaker::new(p, &VT) }
        fn vt_wake(_p: *const ()) { WAKES.fetch_add(1, Ordering::SeqCst); }
        fn vt_noop(_p: *const ()) {}
        static VT: RawWakerVTable = RawWakerVTable::new(vt_clone, vt_wake, vt_wake, vt_noop);
        fn counting_waker() -> Waker { unsafe { Waker::from_raw(RawWaker::new(std::ptr::null(), &VT)) } }

        // ------------------------------------------------------------------ C17
        /// Under Kani, decoding+verification of a received payload is a verdict carried in byte 0
        /// (1 = valid message with body = byte 1). Natively real CBOR + Ed25519 run on real bytes.
        pub fn from_bytes_stub<M: Serialize + for<'a> Deserialize<'a>>(bytes: &[u8]) -> Result<WrappedMessage<M>, WrappedMessageError> {
            if bytes.len() >= 2 && bytes[0] == 1 {
                // M = u8 in every harness
                assert!(std::mem::size_of::<M>() == 1, "harness: message type is u8");
                let body: M = unsafe { std::mem::transmute_copy::<u8, M>(&bytes[1]) };
                Ok(WrappedMessage {
                    version: MESSAGE_VERSION,
                    verifying_key: VerifyingKey::default(),
                    signature: Signature::from_bytes(&[0u8; 64]),
                    timestamp: HybridTimestamp::from_parts(Timestamp::new(0), LamportTimestamp::new(0)),
                    body,
                })
            } else {
                Err(WrappedMessageError::InvalidSignature)
            }
        }

        fn payload(valid: bool, body: u8) -> Vec<u8> {
            #[cfg(kani)]
            { vec![valid as u8, body] }
            #[cfg(not(kani))]
            {
                if valid {
                    let sk = SigningKey::from_bytes(&[7u8; 32]);
                    WrappedMessage::new(body, HybridTimestamp::from_parts(Timestamp::new(5), LamportTimestamp::new(0)), &sk).unwrap().to_bytes().unwrap()
                } else {
                    vec![0xFF, body]
                }
            }
        }

        /// `n_junk` invalid / lagged items, then one valid message with body 42; the stream stays open.
        /// Wake-driven executor: poll; on Pending poll again only if the waker was woken (that is all a
        /// real executor would do). The valid message must come out.
        fn junk_then_valid(n_junk: usize) {
            let mut script: [Option<Result<Vec<u8>, Lagged>>; SCRIPT_LEN] = [None, None, None, None];
            let mut i = 0;
            while i < n_junk {
                let lagged = sym::any_bool();
                script[i] = Some(if lagged { Err(Lagged) } else { Ok(payload(false, 0)) });
                i += 1;
            }
            script[n_junk] = Some(Ok(payload(true, 42)));
            let sub = GossipSubscription::scripted(script, false);
            let s: EphemeralStreamSubscription<u8> = EphemeralStreamSubscription { topic: Topic::from([0u8; 32]), inner: sub, _marker: PhantomData };
            let waker = counting_waker();
            let mut cx = Context::from_waker(&waker);
            let mut s = std::pin::pin!(s);
            let mut got: Option<u8> = None;
            let mut polls = 0;
            let mut stalled = false;
            while polls < 3 {
                WAKES.store(0, Ordering::SeqCst);
                match s.as_mut().poll_next(&mut cx) {
                    Poll::Ready(Some(m)) => { got = Some(*m.body()); break; }
                    Poll::Ready(None) => break,
                    Poll::Pending => {
                        if WAKES.load(Ordering::SeqCst) == 0 {
                            // nobody will poll again unless the inner subscription wakes us: it does so only
                            // when it has registered our waker (i.e. it was empty)
                            stalled = s.inner.queued() > 0;
                            break;
                        }
                    }
                }
                polls += 1;
            }
            witness!(got == Some(42), "witness: the valid message is delivered");
            vassert!(!stalled, "C17.no-stall: Pending is never returned while items are still queued without scheduling a wake-up");
            vassert!(got == Some(42), "C17.delivers: a valid message behind invalid, undecodable or lagged items is eventually yielded");
        }

        macro_rules! c17_harness { ($name:ident, $n:expr) => {
            #[cfg_attr(kani, kani::proof)]
            #[cfg_attr(kani, kani::unwind(6))]
            #[cfg_attr(kani, kani::stub(WrappedMessage::from_bytes, from_bytes_stub))]
            pub fn $name() { junk_then_valid($n); }
        }; }
        c17_harness!(valid_first, 0);
        c17_harness!(one_junk_then_valid, 1);
        c17_harness!(two_junk_then_valid, 2);
        c17_harness!(three_junk_then_valid, 3);

        /// closed stream after junk: the subscription ends (does not hang)
        #[cfg_attr(kani, kani::proof)]
        #[cfg_attr(kani, kani::unwind(8))]
        #[cfg_attr(kani, kani::stub(WrappedMessage::from_bytes, from_bytes_stub))]
        pub fn junk_then_closed_ends() {
            let lagged = sym::any_bool();
            let script: [Option<Result<Vec<u8>, Lagged>>; SCRIPT_LEN] = [Some(if lagged { Err(Lagged) } else { Ok(payload(false, 0)) }), None, None, None];
            let s: EphemeralStreamSubscription<u8> = EphemeralStreamSubscription { topic: Topic::from([0u8; 32]), inner: GossipSubscription::scripted(script, true), _marker: PhantomData };
            let waker = counting_waker();
            let mut cx = Context::from_waker(&waker);
            let mut s = std::pin::pin!(s);
            let mut ended = false;
            let mut polls = 0;
            while polls < 4 {
                WAKES.store(0, Ordering::SeqCst);
                match s.as_mut().poll_next(&mut cx) {
                    Poll::Ready(None) => { ended = true; break; }
                    Poll::Ready(Some(_)) => break,
                    Poll::Pending => { if WAKES.load(Ordering::SeqCst) == 0 { break; } }
                }
                polls += 1;
            }
            vassert!(ended, "C17.ends: after the underlying subscription closed the stream ends instead of hanging");
        }

        pub fn dispatch(name: &str) -> bool {
            match name {
                "unit::proofs::valid_first" => valid_first(),
                "unit::proofs::one_junk_then_valid" => one_junk_then_valid(),
                "unit::proofs::two_junk_then_valid" => two_junk_then_valid(),
                "unit::proofs::three_junk_then_valid" => three_junk_then_valid(),
                "unit::proofs::junk_then_closed_ends" => junk_then_closed_ends(),
                _ => return crate::unit::c16::dispatch(name),
            }
            true
        }
    }

    pub mod c16;
}

#[cfg(all(test, not(kani)))]
mod replay_entry {
    #[test]
    fn verif_replay_entry() {
        let name = std::env::var("VERIF_HARNESS").expect("VERIF_HARNESS");
        let script = std::fs::read_to_string(std::env::var("VERIF_SCRIPT").expect("VERIF_SCRIPT")).unwrap();
        crate::sym::script::load(crate::sym::script::parse(&script));
        if !crate::unit::proofs::dispatch(&name) { panic!("unknown harness {name}"); }
        println!("REPLAY-DONE");
    }
}
