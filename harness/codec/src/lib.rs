//! Harness crate "codec" (style S2): p2panda-net/src/codec.rs mounted verbatim against the REAL
//! tokio_util::{bytes::BytesMut, codec::{Encoder, Decoder}} and postcard — no models at all.
//! Serves C26. Messages are fixed-size (`[u8; 2]`) so that frame lengths are concrete; payload bytes,
//! length prefixes and limits are symbolic; split points are enumerated by concrete loops.
#![allow(unused)]
#[macro_use]
pub mod sym;
#[path = "staged/codec.rs"]
pub mod codec;

pub mod c26 {
    use crate::codec::{Codec, CodecError};
    use crate::sym;
    use tokio_util::bytes::{BufMut, BytesMut};
    use tokio_util::codec::{Decoder, Encoder};

    type Msg = [u8; 2];
    const FRAME: usize = 6; // 4-byte length prefix + 2 payload bytes

    fn is_none(r: &Result<Option<Msg>, CodecError>) -> bool { matches!(r, Ok(None)) }
    fn is_some(r: &Result<Option<Msg>, CodecError>, m: Msg) -> bool { matches!(r, Ok(Some(x)) if *x == m) }

    /// One frame, delivered in two chunks split at every position 0..=6.
    #[cfg_attr(kani, kani::proof)]
    #[cfg_attr(kani, kani::unwind(9))]
    pub fn one_frame_every_split_point() {
        let m: Msg = [sym::any_u8(), sym::any_u8()];
        let mut wire = BytesMut::with_capacity(16);
        let mut enc = Codec::<Msg>::new();
        let r = enc.encode(m, &mut wire);
        let ok = r.is_ok();
        std::mem::forget(r);
        vassert!(ok && wire.len() == FRAME, "C26.encode-frame: a message is encoded as a 4-byte big-endian length prefix plus its postcard bytes");
        vassert!(wire[0] == 0 && wire[1] == 0 && wire[2] == 0 && wire[3] == 2, "C26.encode-prefix: the length prefix announces exactly the payload length");
        let mut split = 0;
        while split <= FRAME {
            let mut dec = Codec::<Msg>::new();
            let mut src = BytesMut::with_capacity(16);
            src.put_slice(&wire[..split]);
            let r1 = dec.decode(&mut src);
            if split < FRAME {
                vassert!(is_none(&r1), "C26.incomplete: an incomplete frame yields nothing yet (and no error)");
                vassert!(src.len() == split, "C26.incomplete-keeps-bytes: an incomplete frame is left in the buffer");
                src.put_slice(&wire[split..]);
                let r2 = dec.decode(&mut src);
                vassert!(is_some(&r2, m), "C26.roundtrip-split: after the rest arrived exactly the encoded message is decoded");
                std::mem::forget(r2);
            } else {
                vassert!(is_some(&r1, m), "C26.roundtrip: a complete frame decodes to exactly the encoded message");
            }
            vassert!(src.is_empty(), "C26.consumes-frame: decoding consumes exactly one frame");
            std::mem::forget(r1);
            std::mem::forget(src);
            split += 1;
        }
        std::mem::forget(wire);
    }

    /// Two frames back to back, chunk boundary at every position 0..=12: both messages, in order.
    #[cfg_attr(kani, kani::proof)]
    #[cfg_attr(kani, kani::unwind(15))]
    pub fn two_frames_in_order_every_split_point() {
        let m1: Msg = [sym::any_u8(), sym::any_u8()];
        let m2: Msg = [sym::any_u8(), sym::any_u8()];
        let mut wire = BytesMut::with_capacity(32);
        let mut enc = Codec::<Msg>::new();
        let r = enc.encode(m1, &mut wire); std::mem::forget(r);
        let r = enc.encode(m2, &mut wire); std::mem::forget(r);
        vassert!(wire.len() == 2 * FRAME, "C26.encode-appends: a second message is appended behind the first frame");
        let mut split = 0;
        while split <= 2 * FRAME {
            let mut dec = Codec::<Msg>::new();
            let mut src = BytesMut::with_capacity(32);
            let mut got: [Option<Msg>; 2] = [None, None];
            let mut n = 0;
            src.put_slice(&wire[..split]);
            // drain what is decodable, then deliver the second chunk and drain again
            let mut round = 0;
            while round < 2 {
                let mut k = 0;
                while k < 3 {
                    let r = dec.decode(&mut src);
                    let item = match &r { Ok(Some(x)) => Some(*x), _ => None };
                    let err = r.is_err();
                    std::mem::forget(r);
                    vassert!(!err, "C26.no-error: well-formed frames never produce a decode error, however they are chunked");
                    match item { Some(x) => { if n < 2 { got[n] = Some(x); } n += 1; } None => { k = 3; } }
                    k += 1;
                }
                if round == 0 { src.put_slice(&wire[split..]); }
                round += 1;
            }
            vassert!(n == 2 && got[0] == Some(m1) && got[1] == Some(m2), "C26.sequence: exactly the encoded messages are decoded, in order, for every chunk boundary");
            vassert!(src.is_empty(), "C26.sequence-consumed: nothing is left over after the last frame");
            std::mem::forget(src);
            split += 1;
        }
        std::mem::forget(wire);
    }

    /// Size limit on encode: rejected iff the frame is larger than the configured maximum.
    #[cfg_attr(kani, kani::proof)]
    #[cfg_attr(kani, kani::unwind(9))]
    pub fn encode_limit_is_exact() {
        let m: Msg = [sym::any_u8(), sym::any_u8()];
        let max = sym::any_below(6) as usize;
        let mut wire = BytesMut::with_capacity(16);
        let mut enc = Codec::<Msg>::new().max_frame_len(max);
        let r = enc.encode(m, &mut wire);
        let too_large = matches!(&r, Err(CodecError::TooLargeMessage(_, _)));
        let ok = r.is_ok();
        std::mem::forget(r);
        witness!(too_large, "witness: a frame larger than the maximum is rejected");
        witness!(ok, "witness: a frame within the maximum is accepted");
        vassert!(too_large == (2 > max), "C26.encode-limit: encoding is rejected exactly when the frame is larger than the configured maximum");
        vassert!(ok == (2 <= max), "C26.encode-limit-accept: no frame within the maximum is rejected on encode");
        if !ok { vassert!(wire.is_empty(), "C26.encode-limit-clean: a rejected message writes nothing to the wire"); }
        std::mem::forget(wire);
    }

    /// Size limit on decode: ANY announced length above the maximum is rejected, none at or below is.
    #[cfg_attr(kani, kani::proof)]
    #[cfg_attr(kani, kani::unwind(9))]
    pub fn decode_limit_is_exact() {
        let announced = sym::any_u32();
        let max = sym::any_u32() as usize;
        let payload: Msg = [sym::any_u8(), sym::any_u8()];
        let mut src = BytesMut::with_capacity(16);
        src.put_u32(announced);
        src.put_slice(&payload);
        let mut dec = Codec::<Msg>::new().max_frame_len(max);
        let r = dec.decode(&mut src);
        let too_large = matches!(&r, Err(CodecError::TooLargeMessage(_, _)));
        let decoded = match &r { Ok(Some(x)) => Some(*x), _ => None };
        let none = matches!(&r, Ok(None));
        std::mem::forget(r);
        witness!(too_large, "witness: an announced length above the maximum is rejected");
        witness!(decoded.is_some(), "witness: a frame within the maximum decodes");
        vassert!(too_large == (announced as usize > max), "C26.decode-limit: decoding is rejected exactly when the announced frame length is larger than the configured maximum");
        if announced == 2 && max >= 2 { vassert!(decoded == Some(payload), "C26.decode-within-limit: a frame within the maximum is decoded"); }
        if (announced as usize) <= max && announced > 2 { vassert!(none, "C26.decode-waits: a frame within the maximum whose bytes have not all arrived yields nothing yet"); }
        std::mem::forget(src);
    }

    pub fn dispatch(name: &str) -> bool {
        match name {
            "c26::one_frame_every_split_point" => one_frame_every_split_point(),
            "c26::two_frames_in_order_every_split_point" => two_frames_in_order_every_split_point(),
            "c26::encode_limit_is_exact" => encode_limit_is_exact(),
            "c26::decode_limit_is_exact" => decode_limit_is_exact(),
            _ => return false,
        }
        true
    }
}

#[cfg(all(test, not(kani)))]
mod replay_entry {
    #[test]
    fn verif_replay_entry() {
        let name = std::env::var("VERIF_HARNESS").expect("VERIF_HARNESS");
        let script = std::fs::read_to_string(std::env::var("VERIF_SCRIPT").expect("VERIF_SCRIPT")).unwrap();
        crate::sym::script::load(crate::sym::script::parse(&script));
        if !crate::c26::dispatch(&name) { panic!("unknown harness {name}"); }
        println!("REPLAY-DONE");
    }
}
