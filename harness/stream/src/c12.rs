//! C12 — released orderer items survive cancellation of `next`.
//! Real code: `Orderer::{new, next}` (p2panda-stream/src/orderer/processor.rs) over the real
//! `CausalOrderer::next` (orderer.rs).
//!
//! Model store (stands for SqliteStore): one item sits in the ready queue. `take_next_ready` removes it
//! *tentatively* inside the open transaction; dropping the permit without commit rolls that back (what
//! `TransactionPermit::drop` does), commit makes it final. Every store call pends exactly once, so
//! every `.await` of `next` is a cancellation point.
use crate::orderer::{Orderer, Ordering};
use crate::processors::Processor;
use crate::sym;
use crate::util::{poll_once, Pend};
use p2panda_store::operations::OperationStore;
use p2panda_store::orderer::OrdererStore;
use p2panda_store::Transaction;
use std::cell::Cell;
use std::collections::HashSet;
use std::task::Poll;

#[derive(Copy, Clone, PartialEq, Eq, Hash, Debug)]
pub struct Id(pub u8);
impl p2panda_core::traits::OperationId for Id {}
impl std::fmt::Display for Id { fn fmt(&self, _f: &mut std::fmt::Formatter<'_>) -> std::fmt::Result { Ok(()) } }
#[derive(Clone, Debug, PartialEq)]
pub struct Item { pub id: Id }
impl p2panda_core::traits::Digest<Id> for Item { fn hash(&self) -> Id { self.id } }
impl Ordering<Id> for Item { fn dependencies(&self) -> &[Id] { &[] } }

#[derive(Debug)]
pub struct E;
impl std::fmt::Display for E { fn fmt(&self, _f: &mut std::fmt::Formatter<'_>) -> std::fmt::Result { Ok(()) } }
impl std::error::Error for E {}

static mut PENDS: u8 = 1;
fn pend() -> Pend { Pend(unsafe { PENDS }) }

pub struct St { in_queue: Cell<bool>, tentative_taken: Cell<bool>, committed_takes: Cell<u8> }
pub struct Permit<'a> { st: &'a St, done: bool }
impl<'a> Drop for Permit<'a> {
    fn drop(&mut self) {
        if !self.done && self.st.tentative_taken.get() {
            // rollback: the tentative dequeue is undone
            self.st.tentative_taken.set(false);
            self.st.in_queue.set(true);
        }
    }
}
impl<'s> Transaction for &'s St {
    type Error = E;
    type Permit = Permit<'s>;
    async fn begin(&self) -> Result<Permit<'s>, E> { pend().await; Ok(Permit { st: *self, done: false }) }
    async fn rollback(&self, p: Permit<'s>) -> Result<(), E> { pend().await; drop(p); Ok(()) }
    async fn commit(&self, mut p: Permit<'s>) -> Result<(), E> {
        pend().await;
        if self.tentative_taken.get() { self.tentative_taken.set(false); self.committed_takes.set(self.committed_takes.get() + 1); }
        p.done = true;
        Ok(())
    }
}
impl<'s> OrdererStore<Id> for &'s St {
    type Error = E;
    async fn mark_ready(&self, _id: Id) -> Result<bool, E> { Ok(true) }
    async fn mark_pending(&self, _id: Id, _d: Vec<Id>) -> Result<bool, E> { Ok(true) }
    async fn get_next_pending(&self, _id: Id) -> Result<Option<HashSet<(Id, Vec<Id>)>>, E> { Ok(None) }
    async fn take_next_ready(&self) -> Result<Option<Id>, E> {
        pend().await;
        if self.in_queue.get() { self.in_queue.set(false); self.tentative_taken.set(true); Ok(Some(Id(1))) } else { Ok(None) }
    }
    async fn remove_pending(&self, _id: Id) -> Result<bool, E> { Ok(true) }
    async fn ready(&self, _k: &[Id]) -> Result<bool, E> { Ok(true) }
}
impl<'s> OperationStore<Item, Id> for &'s St {
    type Error = E;
    async fn insert_operation<L: p2panda_core::LogId>(&self, _id: &Id, _o: &Item, _c: &L) -> Result<bool, E> { Ok(true) }
    async fn get_operation(&self, id: &Id) -> Result<Option<Item>, E> { pend().await; Ok(Some(Item { id: *id })) }
    async fn get_operation_tx(&self, id: &Id) -> Result<Option<Item>, E> { pend().await; Ok(Some(Item { id: *id })) }
    async fn has_operation(&self, _id: &Id) -> Result<bool, E> { Ok(true) }
    async fn has_operation_tx(&self, _id: &Id) -> Result<bool, E> { Ok(true) }
    async fn delete_operation(&self, _id: &Id) -> Result<bool, E> { Ok(false) }
    async fn delete_operation_payload(&self, _id: &Id) -> Result<bool, E> { Ok(false) }
}

/// `next()` is polled `k` times and then dropped (what the buffered stream layer does when new input
/// arrives first); a fresh `next()` must still deliver the released item.
fn cancel_after(k: u8) {
    unsafe { PENDS = 1; }
    let st = St { in_queue: Cell::new(true), tentative_taken: Cell::new(false), committed_takes: Cell::new(0) };
    let ord: Orderer<Item, Id, &St> = Orderer::new(&st);
    let mut got: Option<Id> = None;
    {
        // (explicitly unrolled: keeps the harness free of loops so that the unwinding bound only has to
        //  cover the `loop` inside Orderer::next, which runs at most twice per poll)
        let mut fut = std::pin::pin!(ord.next());
        macro_rules! step { ($n:expr) => { if got.is_none() && k > $n { if let Poll::Ready(r) = poll_once(fut.as_mut()) { got = r.ok().map(|it| it.id); } } }; }
        step!(0); step!(1); step!(2); step!(3); step!(4); step!(5);
    } // cancelled here unless it had finished
    let finished_first = got.is_some();
    witness!(!finished_first && st.committed_takes.get() == 1, "witness: next() was cancelled after the dequeue had been committed");
    witness!(!finished_first && st.committed_takes.get() == 0, "witness: next() was cancelled before the commit");
    unsafe { PENDS = 0; }
    if got.is_none() {
        let mut fut = std::pin::pin!(ord.next());
        if let Poll::Ready(r) = poll_once(fut.as_mut()) { got = r.ok().map(|it| it.id); }
        if got.is_none() { if let Poll::Ready(r) = poll_once(fut.as_mut()) { got = r.ok().map(|it| it.id); } }
    }
    vassert!(got == Some(Id(1)), "C12.survives-cancel: an item released by the orderer is still returned by a later next() after the first next() future was dropped");
    vassert!(st.committed_takes.get() == 1, "C12.released-once: the item is dequeued exactly once");
    std::mem::forget(ord);
}

/// The cancellation point is the symbolic variable; the range 0..=6 polls (next() has 5 await points,
/// each pending once) is split over three harnesses that run in parallel.
fn cancel_in_range(lo: u8, hi: u8) {
    let k = sym::any_u8();
    sym::assume(k >= lo && k <= hi);
    cancel_after(k);
}

#[cfg_attr(kani, kani::proof)]
#[cfg_attr(kani, kani::unwind(3))]
pub fn cancel_within_first_three_polls() { cancel_in_range(0, 2); }

#[cfg_attr(kani, kani::proof)]
#[cfg_attr(kani, kani::unwind(3))]
pub fn cancel_after_three_or_four_polls() { cancel_in_range(3, 4); }

#[cfg_attr(kani, kani::proof)]
#[cfg_attr(kani, kani::unwind(3))]
pub fn cancel_after_five_or_six_polls() { cancel_in_range(5, 6); }

pub fn dispatch(name: &str) -> bool {
    match name {
        "c12::cancel_within_first_three_polls" => cancel_within_first_three_polls(),
        "c12::cancel_after_three_or_four_polls" => cancel_after_three_or_four_polls(),
        "c12::cancel_after_five_or_six_polls" => cancel_after_five_or_six_polls(),
        _ => return false,
    }
    true
}
