//! Harness crate "stream" (style S2): p2panda-stream's processor and orderer units mounted verbatim
//! in the same module layout; `tokio` resolves to the contract model; p2panda-core / p2panda-store
//! (traits only, no SQLite) are the real crates. Serves C12 and C13.
#![allow(unused, static_mut_refs)]
#[macro_use]
pub mod sym;

pub mod processors {
    #[path = "../staged/processor.rs"]
    mod processor;
    pub use processor::Processor;
    #[path = "../staged/composed.rs"]
    pub mod composed;
    #[path = "../staged/pipeline.rs"]
    pub mod pipeline;
}
pub mod orderer {
    #[path = "../staged/orderer.rs"]
    mod orderer;
    #[path = "../staged/orderer_traits.rs"]
    mod traits;
    #[path = "../staged/orderer_processor.rs"]
    pub mod processor;
    pub use orderer::CausalOrderer;
    pub use processor::{Orderer, OrdererError};
    pub use traits::Ordering;
}

pub mod util {
    use std::future::Future;
    use std::pin::Pin;
    use std::task::{Context, Poll, Waker};
    pub fn poll_once<F: Future + ?Sized>(f: Pin<&mut F>) -> Poll<F::Output> {
        let waker = Waker::noop();
        let mut cx = Context::from_waker(&waker);
        f.poll(&mut cx)
    }
    /// Pends `n` times, then is ready.
    pub struct Pend(pub u8);
    impl Future for Pend {
        type Output = ();
        fn poll(mut self: Pin<&mut Self>, _cx: &mut Context<'_>) -> Poll<()> { if self.0 == 0 { Poll::Ready(()) } else { self.0 -= 1; Poll::Pending } }
    }
    pub struct Never;
    impl Future for Never { type Output = (); fn poll(self: Pin<&mut Self>, _cx: &mut Context<'_>) -> Poll<()> { Poll::Pending } }
}

pub mod c12;
pub mod c13;

#[cfg(all(test, not(kani)))]
mod replay_entry {
    #[test]
    fn verif_replay_entry() {
        let name = std::env::var("VERIF_HARNESS").expect("VERIF_HARNESS");
        let script = std::fs::read_to_string(std::env::var("VERIF_SCRIPT").expect("VERIF_SCRIPT")).unwrap();
        crate::sym::script::load(crate::sym::script::parse(&script));
        if !crate::c12::dispatch(&name) && !crate::c13::dispatch(&name) { panic!("unknown harness {name}"); }
        println!("REPLAY-DONE");
    }
}
