//! C13 — processor streams deliver every output exactly once and in order (composed processors).
//! Real code: `ComposedProcessors::{process, next}` (processors/composed.rs), `Pipeline`
//! (processors/pipeline.rs), the `Processor` trait.
use crate::processors::composed::ComposedProcessors;
use crate::processors::pipeline::PipelineBuilder;
use crate::processors::Processor;
use crate::sym;
use crate::util::{poll_once, Never, Pend};
use std::cell::Cell;
use std::task::Poll;

/// Two-slot FIFO processor whose `process` needs `delay` extra polls before it stores its input and
/// whose `next` waits (Pending) while empty.
pub struct Fifo { q: Cell<[Option<u8>; 4]>, delay: u8 }
impl Fifo {
    pub fn new(items: [Option<u8>; 2], delay: u8) -> Self { Self { q: Cell::new([items[0], items[1], None, None]), delay } }
    pub fn new4(items: [Option<u8>; 4], delay: u8) -> Self { Self { q: Cell::new(items), delay } }
    fn push(&self, x: u8) {
        // (no loop: the harnesses' unwinding bound is reserved for the loop inside ComposedProcessors::next)
        let mut q = self.q.get();
        if q[0].is_none() { q[0] = Some(x); }
        else if q[1].is_none() { q[1] = Some(x); }
        else if q[2].is_none() { q[2] = Some(x); }
        else { assert!(q[3].is_none(), "harness: fifo bound"); q[3] = Some(x); }
        self.q.set(q);
    }
    fn pop(&self) -> Option<u8> { let mut q = self.q.get(); let x = q[0]; if x.is_some() { q[0] = q[1]; q[1] = q[2]; q[2] = q[3]; q[3] = None; self.q.set(q); } x }
    pub fn len(&self) -> usize { let q = self.q.get(); q[0].is_some() as usize + q[1].is_some() as usize + q[2].is_some() as usize + q[3].is_some() as usize }
}
impl Processor<u8> for Fifo {
    type Output = u8;
    type Error = ();
    async fn process(&self, input: u8) -> Result<(), ()> { Pend(self.delay).await; self.push(input); Ok(()) }
    async fn next(&self) -> Result<u8, ()> { loop { if let Some(x) = self.pop() { return Ok(x); } Never.await; } }
}

fn choice() -> bool { sym::any_bool() }

/// (a) `next()` of a two-stage chain is dropped after k polls; the item that was in flight between the
/// stages must not disappear.
#[cfg_attr(kani, kani::proof)]
#[cfg_attr(kani, kani::unwind(4))]
pub fn cancelled_next_loses_no_intermediate_item() {
    unsafe { tokio::macros::CHOICE = Some(choice); }
    let d = sym::any_below(2);
    let c = ComposedProcessors { first: Fifo::new([Some(7), None], 0), second: Fifo::new([None, None], d) };
    let k = sym::any_below(4);
    let mut got: Option<u8> = None;
    {
        let mut fut = std::pin::pin!(c.next());
        if k > 0 { if let Poll::Ready(r) = poll_once(fut.as_mut()) { got = r.ok(); } }
        if got.is_none() && k > 1 { if let Poll::Ready(r) = poll_once(fut.as_mut()) { got = r.ok(); } }
        if got.is_none() && k > 2 { if let Poll::Ready(r) = poll_once(fut.as_mut()) { got = r.ok(); } }
    } // cancelled here if not finished (what Buffer's select! does when input arrives first)
    witness!(got.is_none() && c.first.len() == 0 && c.second.len() == 0, "witness: cancelled while the item was in flight between the stages");
    if got.is_none() {
        let mut fut = std::pin::pin!(c.next());
        if let Poll::Ready(r) = poll_once(fut.as_mut()) { got = r.ok(); }
        if got.is_none() { if let Poll::Ready(r) = poll_once(fut.as_mut()) { got = r.ok(); } }
        if got.is_none() { if let Poll::Ready(r) = poll_once(fut.as_mut()) { got = r.ok(); } }
    }
    vassert!(got == Some(7), "C13.cancel-loses-nothing: no intermediate item is dropped when a next() future is cancelled");
    std::mem::forget(c);
}

/// (b) without cancellation: two inputs through a two-stage pipeline come out exactly once, in order,
/// for every select! start index and every processing delay. (Polls are unrolled explicitly so that the
/// unwinding bound only has to cover the `loop` inside ComposedProcessors::next.)
#[cfg_attr(kani, kani::proof)]
#[cfg_attr(kani, kani::unwind(6))]
pub fn two_items_exactly_once_in_order() {
    unsafe { tokio::macros::CHOICE = Some(choice); }
    let d1 = sym::any_below(2);
    let d2 = sym::any_below(2);
    let p = PipelineBuilder::<u8>::new().layer(Fifo::new([None, None], d1)).layer(Fifo::new([None, None], d2)).build();
    let a = sym::any_u8();
    let b = sym::any_u8();
    macro_rules! run { ($f:expr, $out:ident) => {{
        let mut f = std::pin::pin!($f);
        let mut $out = None;
        if let Poll::Ready(r) = poll_once(f.as_mut()) { $out = Some(r); }
        if $out.is_none() { if let Poll::Ready(r) = poll_once(f.as_mut()) { $out = Some(r); } }
        if $out.is_none() { if let Poll::Ready(r) = poll_once(f.as_mut()) { $out = Some(r); } }
        if $out.is_none() { if let Poll::Ready(r) = poll_once(f.as_mut()) { $out = Some(r); } }
        $out
    }}; }
    let pa = run!(p.process(a), o);
    let pb = run!(p.process(b), o);
    vassert!(pa == Some(Ok(())) && pb == Some(Ok(())), "C13.process-completes: process() of a composed pipeline completes");
    let x = run!(p.next(), o);
    let y = run!(p.next(), o);
    vassert!(x == Some(Ok(a)) && y == Some(Ok(b)), "C13.exactly-once-in-order: every output comes out exactly once and in input order");
    // nothing further: a third next() stays pending
    let z = run!(p.next(), o);
    vassert!(z.is_none(), "C13.no-duplicates: no output is delivered twice");
}

/// (c) one input through a two-stage pipeline, no cancellation: delivered exactly once.
#[cfg_attr(kani, kani::proof)]
#[cfg_attr(kani, kani::unwind(5))]
pub fn one_item_exactly_once() {
    unsafe { tokio::macros::CHOICE = Some(choice); }
    let d2 = sym::any_below(2);
    let p = PipelineBuilder::<u8>::new().layer(Fifo::new([None, None], 0)).layer(Fifo::new([None, None], d2)).build();
    let a = sym::any_u8();
    macro_rules! run { ($f:expr) => {{
        let mut f = std::pin::pin!($f);
        let mut out = None;
        if let Poll::Ready(r) = poll_once(f.as_mut()) { out = Some(r); }
        if out.is_none() { if let Poll::Ready(r) = poll_once(f.as_mut()) { out = Some(r); } }
        if out.is_none() { if let Poll::Ready(r) = poll_once(f.as_mut()) { out = Some(r); } }
        out
    }}; }
    let pa = run!(p.process(a));
    vassert!(pa == Some(Ok(())), "C13.process-completes-one: process() of a composed pipeline completes");
    let x = run!(p.next());
    vassert!(x == Some(Ok(a)), "C13.delivered-one: an input is delivered by next() of a composed pipeline");
    let z = run!(p.next());
    vassert!(z.is_none(), "C13.no-duplicate-one: the output is not delivered a second time");
}

pub fn dispatch(name: &str) -> bool {
    match name {
        "c13::cancelled_next_loses_no_intermediate_item" => cancelled_next_loses_no_intermediate_item(),
        "c13::two_items_exactly_once_in_order" => two_items_exactly_once_in_order(),
        "c13::one_item_exactly_once" => one_item_exactly_once(),
        _ => return false,
    }
    true
}
