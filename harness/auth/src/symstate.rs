//! Symbolic group states over member ids 0..NID.
use crate::access::{Access, AccessLevel};
use crate::state::{GroupMembersState, MemberState};
use crate::sym;
use crate::traits::Conditions;
use crate::verif_models::HashMap;

pub const NID: u8 = 2;

pub fn any_level() -> AccessLevel {
    match sym::any_below(4) { 0 => AccessLevel::Pull, 1 => AccessLevel::Read, 2 => AccessLevel::Write, _ => AccessLevel::Manage }
}

/// Conditions instantiation: `u8` restricted to {0,1} (totally ordered), optional.
pub fn any_access_cond() -> Access<u8> {
    let has = sym::any_bool();
    let c = sym::any_below(2);
    Access { conditions: if has { Some(c) } else { None }, level: any_level() }
}
pub fn any_access_nocond() -> Access<()> { Access { conditions: None, level: any_level() } }

pub fn any_member<C: Conditions>(access: Access<C>) -> MemberState<C> {
    let mc = sym::any_below(4) as usize;      // 0 would mean "never added": excluded below
    let ac = sym::any_below(3) as usize;
    sym::assume(mc >= 1);
    MemberState { member_counter: mc, access, access_counter: ac }
}

pub fn any_state_cond(nid: u8) -> GroupMembersState<u8, u8> {
    let mut members = HashMap::new();
    let mut id = 0u8;
    while id < nid {
        let present = sym::any_bool();
        let m = any_member(any_access_cond());
        if present { members.insert(id, m); }
        id += 1;
    }
    GroupMembersState { members }
}
pub fn any_state_nocond(nid: u8) -> GroupMembersState<u8, ()> {
    let mut members = HashMap::new();
    let mut id = 0u8;
    while id < nid {
        let present = sym::any_bool();
        let m = any_member(any_access_nocond());
        if present { members.insert(id, m); }
        id += 1;
    }
    GroupMembersState { members }
}

pub fn same<C: Conditions>(a: &GroupMembersState<u8, C>, b: &GroupMembersState<u8, C>, nid: u8) -> bool {
    let mut id = 0u8;
    while id < nid {
        match (a.members.get(&id), b.members.get(&id)) {
            (None, None) => {}
            (Some(x), Some(y)) => {
                if !(x.member_counter == y.member_counter && x.access_counter == y.access_counter && x.access == y.access) { return false; }
            }
            _ => return false,
        }
        id += 1;
    }
    true
}
