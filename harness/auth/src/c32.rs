//! C32 — group state merge is commutative, associative and idempotent.
//! Real code: `state::merge` (p2panda-auth/src/group/crdt/state.rs), `PartialOrd for Access`
//! (p2panda-auth/src/access.rs).
use crate::symstate::*;
use crate::state::{merge, GroupMembersState};
use crate::sym;
use crate::traits::Conditions;

// ------------------------------------------------------------------ without access conditions
#[cfg_attr(kani, kani::proof)]
#[cfg_attr(kani, kani::unwind(4))]
pub fn commutative_without_conditions() {
    let a = any_state_nocond(NID);
    let b = any_state_nocond(NID);
    let ab = merge(a.clone(), b.clone());
    let ba = merge(b.clone(), a.clone());
    witness!(a.members.len() == 2 && b.members.len() == 2, "witness: two members on both sides");
    witness!(!same(&a, &b, NID), "witness: the two states differ");
    vassert!(same(&ab, &ba, NID), "C32.commutative: merge(a,b) == merge(b,a) (no access conditions)");
    std::mem::forget((a, b, ab, ba));
}

#[cfg_attr(kani, kani::proof)]
#[cfg_attr(kani, kani::unwind(4))]
pub fn idempotent_without_conditions() {
    let a = any_state_nocond(NID);
    let aa = merge(a.clone(), a.clone());
    witness!(a.members.len() == 2, "witness: two members");
    vassert!(same(&aa, &a, NID), "C32.idempotent: merge(a,a) == a (no access conditions)");
    std::mem::forget((a, aa));
}

#[cfg_attr(kani, kani::proof)]
#[cfg_attr(kani, kani::unwind(4))]
pub fn associative_without_conditions() {
    // members are merged independently by the code's loop: one member id keeps three states tractable
    let a = any_state_nocond(1);
    let b = any_state_nocond(1);
    let c = any_state_nocond(1);
    let l = merge(merge(a.clone(), b.clone()), c.clone());
    let r = merge(a.clone(), merge(b.clone(), c.clone()));
    witness!(a.members.len() == 1 && b.members.len() == 1 && c.members.len() == 1, "witness: member present in all three states");
    vassert!(same(&l, &r, 1), "C32.associative: merge(merge(a,b),c) == merge(a,merge(b,c)) (no access conditions)");
    std::mem::forget((a, b, c, l, r));
}

// ------------------------------------------------------------------ with totally ordered conditions
/// The pair of accesses of a member present in both states with equal counters is "decidable" when
/// the access order answers consistently: exactly one of a<b, b<a, a==b.
fn consistent_pairs(a: &GroupMembersState<u8, u8>, b: &GroupMembersState<u8, u8>, nid: u8) -> bool {
    let mut id = 0u8;
    while id < nid {
        if let (Some(x), Some(y)) = (a.members.get(&id), b.members.get(&id)) {
            if x.member_counter == y.member_counter && x.access_counter == y.access_counter {
                let lt = x.access < y.access;
                let gt = y.access < x.access;
                let eq = x.access == y.access;
                let n = lt as u8 + gt as u8 + eq as u8;
                if n != 1 { return false; }
            }
        }
        id += 1;
    }
    true
}

#[cfg_attr(kani, kani::proof)]
#[cfg_attr(kani, kani::unwind(4))]
pub fn commutative_with_conditions() {
    let a = any_state_cond(NID);
    let b = any_state_cond(NID);
    let ab = merge(a.clone(), b.clone());
    let ba = merge(b.clone(), a.clone());
    witness!(!same(&a, &b, NID), "witness: the two states differ");
    vassert!(same(&ab, &ba, NID), "C32.commutative-cond: merge(a,b) == merge(b,a) with access conditions");
    std::mem::forget((a, b, ab, ba));
}

/// Same law restricted to inputs on which `Access: PartialOrd` is a consistent (antisymmetric, total
/// on the pair) order — everything outside the recorded finding. Must hold.
#[cfg_attr(kani, kani::proof)]
#[cfg_attr(kani, kani::unwind(4))]
pub fn commutative_with_conditions_consistent_order() {
    let a = any_state_cond(NID);
    let b = any_state_cond(NID);
    sym::assume(consistent_pairs(&a, &b, NID));
    let ab = merge(a.clone(), b.clone());
    let ba = merge(b.clone(), a.clone());
    witness!(!same(&a, &b, NID), "witness: the two states differ");
    vassert!(same(&ab, &ba, NID), "C32.commutative-cond-consistent: merge commutes wherever the access order is consistent");
    std::mem::forget((a, b, ab, ba));
}

#[cfg_attr(kani, kani::proof)]
#[cfg_attr(kani, kani::unwind(4))]
pub fn idempotent_with_conditions() {
    let a = any_state_cond(NID);
    let aa = merge(a.clone(), a.clone());
    vassert!(same(&aa, &a, NID), "C32.idempotent-cond: merge(a,a) == a with access conditions");
    std::mem::forget((a, aa));
}

#[cfg_attr(kani, kani::proof)]
#[cfg_attr(kani, kani::unwind(4))]
pub fn associative_with_conditions() {
    let a = any_state_cond(1);
    let b = any_state_cond(1);
    let c = any_state_cond(1);
    let l = merge(merge(a.clone(), b.clone()), c.clone());
    let r = merge(a.clone(), merge(b.clone(), c.clone()));
    vassert!(same(&l, &r, 1), "C32.associative-cond: merge is associative with access conditions");
    std::mem::forget((a, b, c, l, r));
}

pub fn dispatch(name: &str) -> bool {
    match name {
        "c32::commutative_without_conditions" => commutative_without_conditions(),
        "c32::idempotent_without_conditions" => idempotent_without_conditions(),
        "c32::associative_without_conditions" => associative_without_conditions(),
        "c32::commutative_with_conditions" => commutative_with_conditions(),
        "c32::commutative_with_conditions_consistent_order" => commutative_with_conditions_consistent_order(),
        "c32::idempotent_with_conditions" => idempotent_with_conditions(),
        "c32::associative_with_conditions" => associative_with_conditions(),
        _ => return false,
    }
    true
}
