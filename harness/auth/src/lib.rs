//! Harness crate "auth" (style S2): p2panda-auth/src/group/crdt/state.rs and src/access.rs mounted
//! verbatim; std HashMap/HashSet redirected to contract models with solver-chosen iteration order.
//! Serves C32 (merge laws) and C33 (authorisation of state changes).
#![allow(unused)]
pub const MODEL_CAP: usize = 3;
#[macro_use]
pub mod sym;
#[path = "collections.rs"]
pub mod verif_models;
/// shim for `crate::traits::Conditions` (marker trait, bounds copied from p2panda-auth/src/traits/mod.rs)
pub mod traits {
    pub trait Conditions: Clone + std::fmt::Debug + PartialEq + PartialOrd {}
    impl Conditions for u8 {}
}
#[path = "staged/access.rs"]
pub mod access;
pub use access::Access;
#[path = "staged/state.rs"]
pub mod state;

pub mod symstate;
pub mod c32;
pub mod c33;

#[cfg(all(test, not(kani)))]
mod replay_entry {
    #[test]
    fn verif_replay_entry() {
        let name = std::env::var("VERIF_HARNESS").expect("VERIF_HARNESS");
        let script = std::fs::read_to_string(std::env::var("VERIF_SCRIPT").expect("VERIF_SCRIPT")).unwrap();
        crate::sym::script::load(crate::sym::script::parse(&script));
        if !crate::c32::dispatch(&name) && !crate::c33::dispatch(&name) { panic!("unknown harness {name}"); }
        println!("REPLAY-DONE");
    }
}
