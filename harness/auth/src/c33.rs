//! C33 — only authorised actors change group membership (state-level half).
//! Real code: `state::{add, remove, promote, demote}` (+ private `modify`) in
//! p2panda-auth/src/group/crdt/state.rs — the functions `GroupCrdt::validate` (via `apply_action`)
//! uses to decide whether an operation is accepted.
use crate::access::Access;
use crate::symstate::*;
use crate::state::{self, GroupMembersState, MemberState};
use crate::sym;

const N3: u8 = 3;

#[derive(Clone, Copy)]
struct Snap { present: bool, active: bool, manager: bool, puller: bool, mc: usize, ac: usize }

fn snap(s: &GroupMembersState<u8, ()>, id: u8) -> Snap {
    match s.members.get(&id) {
        Some(m) => Snap { present: true, active: m.is_member(), manager: m.is_manager(), puller: m.is_puller(), mc: m.member_counter, ac: m.access_counter },
        None => Snap { present: false, active: false, manager: false, puller: false, mc: 0, ac: 0 },
    }
}

/// One group operation from an ARBITRARY state over three ids, arbitrary actor and target.
fn step(op: u8) {
    let pre = any_state_nocond(N3);
    let actor = sym::any_below(N3);
    let target = sym::any_below(N3);
    let access = any_access_nocond();
    let before = [snap(&pre, 0), snap(&pre, 1), snap(&pre, 2)];
    let pre_access: [Option<Access<()>>; 3] = [pre.members.get(&0).map(|m| m.access()), pre.members.get(&1).map(|m| m.access()), pre.members.get(&2).map(|m| m.access())];
    let a = before[actor as usize];
    let t = before[target as usize];
    let res = match op {
        0 => state::add(pre, actor, target, access.clone()),
        1 => state::remove(pre, actor, target),
        2 => state::promote(pre, actor, target, access.clone()),
        _ => state::demote(pre, actor, target, access.clone()),
    };
    witness!(res.is_ok(), "witness: an operation is accepted");
    witness!(res.is_err() && a.active && a.manager, "witness: an authorised actor's invalid action is rejected");
    if let Ok(post) = &res {
        let self_remove = op == 1 && actor == target;
        vassert!(a.present && a.active, "C33.actor-active: an accepted operation's author is an active member");
        vassert!(a.manager || self_remove, "C33.actor-manager: an accepted operation's author has Manage access (or removes itself)");
        let valid = match op { 0 => !t.active, _ => t.present && t.active };
        vassert!(valid, "C33.action-valid: the action is valid in the state (add: target not a member; remove/promote/demote: target an active member)");
        // nobody becomes an active member except the target of an accepted add; nobody else changes
        let mut id = 0u8;
        while id < N3 {
            let b = before[id as usize];
            let n = snap(post, id);
            if id != target {
                vassert!(n.present == b.present && n.mc == b.mc && n.ac == b.ac && post.members.get(&id).map(|m| m.access()) == pre_access[id as usize],
                    "C33.others-untouched: an accepted operation changes no entry but its target's");
            } else {
                vassert!(!(n.active && !b.active) || op == 0, "C33.only-add-activates: nobody becomes a member unless an accepted add introduced them");
                vassert!(!(!n.active && b.active) || op == 1, "C33.only-remove-deactivates: nobody loses membership except through an accepted remove");
                vassert!(n.mc >= b.mc, "C33.counter-grows: the membership counter never decreases");
            }
            id += 1;
        }
        let tn = snap(post, target);
        vassert!(op != 0 || tn.active, "C33.add-effect: an accepted add makes the target an active member");
        vassert!(op != 1 || !tn.active, "C33.remove-effect: an accepted remove deactivates the target");
    }
    std::mem::forget(res);
}

#[cfg_attr(kani, kani::proof)] #[cfg_attr(kani, kani::unwind(5))] pub fn add_step() { step(0); }
#[cfg_attr(kani, kani::proof)] #[cfg_attr(kani, kani::unwind(5))] pub fn remove_step() { step(1); }
#[cfg_attr(kani, kani::proof)] #[cfg_attr(kani, kani::unwind(5))] pub fn promote_step() { step(2); }
#[cfg_attr(kani, kani::proof)] #[cfg_attr(kani, kani::unwind(5))] pub fn demote_step() { step(3); }

/// create(): exactly the listed initial members are active, with their access.
#[cfg_attr(kani, kani::proof)]
#[cfg_attr(kani, kani::unwind(5))]
pub fn create_introduces_exactly_initial_members() {
    let a0 = any_access_nocond();
    let a1 = any_access_nocond();
    let two = sym::any_bool();
    let s = if two { state::create(&[(0u8, a0.clone()), (1u8, a1.clone())]) } else { state::create(&[(0u8, a0.clone())]) };
    let s0 = snap(&s, 0);
    let s1 = snap(&s, 1);
    let s2 = snap(&s, 2);
    vassert!(s0.active && s.members.get(&0).map(|m| m.access()) == Some(a0), "C33.create-members: create makes exactly its initial members active with their access");
    vassert!(s1.active == two && !s2.present, "C33.create-nobody-else: create introduces nobody else");
    std::mem::forget(s);
}

/// The same authorisation clauses with access conditions present (C = u8 in {0,1}, optional):
/// conditions must not open a way around the manager check.
#[cfg_attr(kani, kani::proof)]
#[cfg_attr(kani, kani::unwind(5))]
pub fn any_operation_with_conditions_needs_an_active_manager() {
    let pre = any_state_cond(N3);
    let op = sym::any_below(4);
    let actor = sym::any_below(N3);
    let target = sym::any_below(N3);
    let access = any_access_cond();
    let a_present = pre.members.get(&actor).is_some();
    let a_active = pre.members.get(&actor).map(|m| m.is_member()).unwrap_or(false);
    let a_manager = pre.members.get(&actor).map(|m| m.is_manager()).unwrap_or(false);
    let t_active = pre.members.get(&target).map(|m| m.is_member()).unwrap_or(false);
    let res = match op {
        0 => state::add(pre, actor, target, access),
        1 => state::remove(pre, actor, target),
        2 => state::promote(pre, actor, target, access),
        _ => state::demote(pre, actor, target, access),
    };
    witness!(res.is_ok(), "witness: an operation with conditions is accepted");
    if let Ok(post) = &res {
        let self_remove = op == 1 && actor == target;
        vassert!(a_present && a_active, "C33.cond-actor-active: with access conditions an accepted operation's author is an active member");
        vassert!(a_manager || self_remove, "C33.cond-actor-manager: with access conditions an accepted operation's author has Manage access (or removes itself)");
        let t_now = post.members.get(&target).map(|m| m.is_member()).unwrap_or(false);
        vassert!(!(t_now && !t_active) || op == 0, "C33.cond-only-add-activates: with access conditions nobody becomes a member unless an accepted add introduced them");
    }
    std::mem::forget(res);
}

pub fn dispatch(name: &str) -> bool {
    match name {
        "c33::any_operation_with_conditions_needs_an_active_manager" => any_operation_with_conditions_needs_an_active_manager(),
        "c33::add_step" => add_step(),
        "c33::remove_step" => remove_step(),
        "c33::promote_step" => promote_step(),
        "c33::demote_step" => demote_step(),
        "c33::create_introduces_exactly_initial_members" => create_introduces_exactly_initial_members(),
        _ => return false,
    }
    true
}
