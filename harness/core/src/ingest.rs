//! C03 / C05 / C01 — the real `ingest_operation` (p2panda-stream/src/ingest/operation.rs, mounted
//! verbatim as `crate::ingest_real`) over a model store.
//!
//! The sibling harnesses (c03.rs, c05.rs) decide the log-integrity kernel of p2panda-core in isolation;
//! this one decides the composition `ingest_operation` builds around it: which stored entry it looks
//! up, what it passes to the kernel, and what it writes — one inductive step from an ARBITRARY stored
//! log head.
//!
//! Model store (stands for SqliteStore): exactly one log `(author 0, log id L0)` is stored, with an
//! arbitrary latest entry. `get_latest_entry_tx(author, log)` answers from that state, `insert_operation`
//! records the write tentatively, `commit` makes it final, dropping the permit without commit rolls it
//! back (what `TransactionPermit::drop` does). Store calls never fail and complete at once (store
//! failures and cancellation are outside this harness).
//!
//! `validate_operation` (the subject of the C01 harnesses) is replaced under the solver by a stub that
//! rejects exactly the operations the harness marks as tampered; untampered operations are generated
//! so that the real function accepts them (honest author, version 1, no payload, backlink present iff
//! seq > 0). The native replay runs the real function on really signed operations; "tampered" is then
//! a really corrupted signature.
use crate::ingest_real::ingest_operation;
use crate::{env, sym};
use p2panda_core::{Hash, Header, Operation, OperationError, SeqNum, VerifyingKey};
use p2panda_store::logs::LogStore;
use p2panda_store::operations::OperationStore;
use p2panda_store::topics::TopicStore;
use p2panda_store::Transaction;
use std::cell::Cell;
use std::collections::BTreeMap;
use std::future::Future;
use std::pin::Pin;
use std::task::{Context, Poll, Waker};

pub static mut TAMPERED: bool = false;
pub static mut INSERTS: u32 = 0;

/// Kani stub for `p2panda_core::validate_operation` (see module doc).
pub fn validate_operation_stub<E: p2panda_core::Extensions>(_operation: impl std::borrow::Borrow<Operation<E>>) -> Result<(), OperationError> {
    // "tampered" = the one thing the real function is told apart by here: it rejects a tampered operation
    if unsafe { TAMPERED } { Err(OperationError::SignatureMismatch) } else { Ok(()) }
}

#[derive(Debug)]
pub struct E;
impl std::fmt::Display for E { fn fmt(&self, _f: &mut std::fmt::Formatter<'_>) -> std::fmt::Result { Ok(()) } }
impl std::error::Error for E {}

pub type L = u8;
pub const L0: L = 7;

pub struct St {
    pub known: bool,                      // answer of has_operation_tx for the incoming operation
    pub latest: Option<Operation<()>>,    // latest stored entry of (author 0, L0)
    pub in_tx: Cell<bool>,
    pub tentative: Cell<Option<(u8, L, SeqNum)>>, // (author idx, log, seq) written inside the open transaction
    pub committed: Cell<Option<(u8, L, SeqNum)>>,
    pub commits: Cell<u8>,
    pub lookups_outside_tx: Cell<u8>,
}
pub struct Permit<'a> { st: &'a St, done: bool }
impl<'a> Drop for Permit<'a> {
    fn drop(&mut self) {
        if !self.done { self.st.tentative.set(None); }
        self.st.in_tx.set(false);
    }
}
impl<'s> Transaction for &'s St {
    type Error = E;
    type Permit = Permit<'s>;
    async fn begin(&self) -> Result<Permit<'s>, E> { self.in_tx.set(true); Ok(Permit { st: *self, done: false }) }
    async fn rollback(&self, p: Permit<'s>) -> Result<(), E> { drop(p); Ok(()) }
    async fn commit(&self, mut p: Permit<'s>) -> Result<(), E> {
        if let Some(w) = self.tentative.get() { self.committed.set(Some(w)); }
        self.tentative.set(None);
        self.commits.set(self.commits.get() + 1);
        p.done = true;
        Ok(())
    }
}
fn author_idx(k: &VerifyingKey) -> u8 { if *k == env::key(0) { 0 } else { 1 } }
impl<'s> OperationStore<Operation<()>, Hash> for &'s St {
    type Error = E;
    async fn insert_operation<LL: p2panda_core::LogId>(&self, _id: &Hash, o: &Operation<()>, _log: &LL) -> Result<bool, E> {
        unsafe { INSERTS += 1; }
        // the log id is recorded by `associate` (same value is passed to both)
        self.tentative.set(Some((author_idx(&o.header.verifying_key), 0, o.header.seq_num)));
        Ok(true)
    }
    async fn get_operation(&self, _id: &Hash) -> Result<Option<Operation<()>>, E> { Ok(None) }
    async fn get_operation_tx(&self, _id: &Hash) -> Result<Option<Operation<()>>, E> { Ok(None) }
    async fn has_operation(&self, _id: &Hash) -> Result<bool, E> { Ok(self.known) }
    async fn has_operation_tx(&self, _id: &Hash) -> Result<bool, E> { if !self.in_tx.get() { self.lookups_outside_tx.set(1); } Ok(self.known) }
    async fn delete_operation(&self, _id: &Hash) -> Result<bool, E> { Ok(false) }
    async fn delete_operation_payload(&self, _id: &Hash) -> Result<bool, E> { Ok(false) }
}
impl<'s> LogStore<Operation<()>, VerifyingKey, L, SeqNum, Hash> for &'s St {
    type Error = E;
    async fn get_latest_entry(&self, a: &VerifyingKey, l: &L) -> Result<Option<Operation<()>>, E> {
        self.lookups_outside_tx.set(1);
        if *a == env::key(0) && *l == L0 { Ok(self.latest.clone()) } else { Ok(None) }
    }
    async fn get_latest_entry_tx(&self, a: &VerifyingKey, l: &L) -> Result<Option<Operation<()>>, E> {
        if !self.in_tx.get() { self.lookups_outside_tx.set(1); }
        if *a == env::key(0) && *l == L0 { Ok(self.latest.clone()) } else { Ok(None) }
    }
    async fn get_log_heights(&self, _a: &VerifyingKey, _l: &[L]) -> Result<Option<BTreeMap<L, SeqNum>>, E> { Ok(None) }
    async fn get_log_size(&self, _a: &VerifyingKey, _l: &L, _f: Option<SeqNum>, _u: Option<SeqNum>) -> Result<Option<(u32, u32)>, E> { Ok(None) }
    async fn get_log_entries(&self, _a: &VerifyingKey, _l: &L, _f: Option<SeqNum>, _u: Option<SeqNum>) -> Result<Option<Vec<(Operation<()>, Vec<u8>)>>, E> { Ok(None) }
    async fn prune_entries(&self, _a: &VerifyingKey, _l: &L, _u: &SeqNum) -> Result<u64, E> { Ok(0) }
}
impl<'s> TopicStore<u8, VerifyingKey, L> for &'s St {
    type Error = E;
    async fn associate(&self, _t: &u8, _a: &VerifyingKey, l: &L) -> Result<bool, E> {
        if let Some((a, _, s)) = self.tentative.get() { self.tentative.set(Some((a, *l, s))); }
        Ok(true)
    }
    async fn remove(&self, _t: &u8, _a: &VerifyingKey, _l: &L) -> Result<bool, E> { Ok(false) }
    async fn resolve(&self, _t: &u8) -> Result<BTreeMap<VerifyingKey, Vec<L>>, E> { Ok(BTreeMap::new()) }
}

fn poll_once<F: Future + ?Sized>(f: Pin<&mut F>) -> Poll<F::Output> {
    let waker = Waker::noop();
    let mut cx = Context::from_waker(&waker);
    f.poll(&mut cx)
}

pub struct Step {
    pub has_past: bool,
    pub past_seq: u32,
    pub same_author: bool,
    pub same_log: bool,
    pub seq: u32,
    pub backlink_is_pred_hash: bool,
    pub prune: bool,
    pub known: bool,
    pub result: Option<bool>, // Some(inserted) for Ok, None for Err
    pub committed: Option<(u8, L, SeqNum)>,
    pub commits: u8,
    pub outside_tx: bool,
    pub tampered: bool,
    pub inserts: u32,
}

/// An honest author's signature natively (the real `validate_operation` runs in the replay), corrupted
/// if `tampered`; nothing under the solver (`validate_operation` is stubbed). Consumes no symbolic values.
fn sign_natively(header: &mut Header<()>, author: u8, tampered: bool) {
    header.verifying_key = env::key(author);
    unsafe { TAMPERED = tampered; }
    #[cfg(not(kani))]
    {
        let sk = p2panda_core::SigningKey::from_bytes(&[author.wrapping_add(1); 32]);
        header.sign(&sk);
        if tampered {
            let mut sig = header.signature.unwrap().to_bytes();
            sig[0] ^= 1;
            header.signature = Some(p2panda_core::Signature::from_bytes(&sig));
        }
    }
}

pub fn one_ingest() -> Step {
    unsafe { TAMPERED = false; INSERTS = 0; }
    // stored latest entry of the log (author 0, L0)
    let has_past = sym::any_bool();
    let past_seq = sym::any_u32_searchable();
    sym::assume(past_seq < u32::MAX); // `past.seq_num + 1` overflows: outside the claim (2^32 entries)
    let mut past = Header::<()> {
        version: 1,
        verifying_key: env::key(0),
        signature: None,
        payload_size: 0,
        payload_hash: None,
        seq_num: past_seq,
        backlink: None,
        extensions: (),
    };
    let past_hash = env::declare_past_hash(&past);

    // incoming operation
    let same_author = sym::any_bool();
    let same_log = sym::any_bool();
    let seq = sym::any_u32_searchable();
    let bl_is_pred = sym::any_bool();
    let other = sym::any_bytes::<32>();
    let other_hash = Hash::from_bytes(other);
    // only operations the real validate_operation accepts: backlink present iff seq > 0
    let backlink = if seq == 0 { None } else if bl_is_pred { Some(past_hash) } else {
        sym::assume(other_hash != past_hash);
        Some(other_hash)
    };
    let mut header = Header::<()> {
        version: 1,
        verifying_key: env::key(0),
        signature: None,
        payload_size: 0,
        payload_hash: None,
        seq_num: seq,
        backlink,
        extensions: (),
    };
    let tampered = sym::any_bool();
    sign_natively(&mut header, if same_author { 0 } else { 1 }, tampered);
    let op_hash_sym = sym::any_bytes::<32>();
    #[cfg(kani)]
    let op_hash = Hash::from_bytes(op_hash_sym);
    #[cfg(not(kani))]
    let op_hash = { let _ = op_hash_sym; header.hash() };
    let operation = Operation::<()> { hash: op_hash, header, body: None };
    let prune = sym::any_bool();
    let known = sym::any_bool();
    let log: L = if same_log { L0 } else { L0 + 1 };

    let st = St {
        known,
        latest: if has_past { Some(Operation::<()> { hash: past_hash, header: past, body: None }) } else { None },
        in_tx: Cell::new(false),
        tentative: Cell::new(None),
        committed: Cell::new(None),
        commits: Cell::new(0),
        lookups_outside_tx: Cell::new(0),
    };
    let topic = 1u8;
    let result;
    {
        let store: &St = &st;
        let mut fut = std::pin::pin!(ingest_operation(&store, &operation, &log, &topic, prune));
        match poll_once(fut.as_mut()) {
            Poll::Ready(r) => {
                result = match &r { Ok(b) => Some(*b), Err(_) => None };
                std::mem::forget(r);
            }
            Poll::Pending => { sym::assume(false); unreachable!() } // the model store never pends
        }
    }
    let step = Step {
        has_past, past_seq, same_author, same_log, seq,
        backlink_is_pred_hash: seq != 0 && bl_is_pred,
        prune, known, result,
        committed: st.committed.get(),
        commits: st.commits.get(),
        outside_tx: st.lookups_outside_tx.get() != 0,
        tampered,
        inserts: unsafe { INSERTS },
    };
    std::mem::forget(st);
    std::mem::forget(operation);
    step
}

/// C03: what ingest writes is exactly the incoming operation, inside one committed transaction, and
/// only if it extends the stored head of its own (author, log).
#[cfg_attr(kani, kani::proof)]
#[cfg_attr(kani, kani::unwind(34))]
#[cfg_attr(kani, kani::stub(p2panda_core::Header::hash, crate::env::header_hash_stub))]
#[cfg_attr(kani, kani::stub(constant_time_eq::constant_time_eq_32, crate::env::cte32_stub))]
#[cfg_attr(kani, kani::stub(std::fmt::format, crate::env::fmt_stub))]
#[cfg_attr(kani, kani::stub(p2panda_core::validate_operation, crate::ingest::validate_operation_stub))]
pub fn ingest_accepts_only_extensions() {
    let s = one_ingest();
    let hit = s.has_past && s.same_author && s.same_log; // the stored log is the operation's own log
    witness!(s.result == Some(true) && hit && !s.prune, "witness: next operation ingested on top of the stored head");
    witness!(s.result == Some(true) && !hit, "witness: first operation of a log not stored yet ingested");
    witness!(s.result.is_none() && hit && !s.prune, "witness: non-extending operation rejected");
    witness!(s.result == Some(false), "witness: known operation ignored");
    vassert!(!s.outside_tx, "C03.ingest-in-tx: ingest reads the store only inside its transaction");
    if s.result == Some(true) {
        vassert!(!s.known, "C03.ingest-duplicate: an operation the store already has is not written again");
        vassert!(s.commits == 1 && s.committed == Some((if s.same_author { 0 } else { 1 }, if s.same_log { L0 } else { L0 + 1 }, s.seq)),
            "C03.ingest-writes-it: Ok(true) means exactly this operation was committed under its own author and log");
        if hit {
            vassert!(s.seq > s.past_seq, "C03.ingest-height: nothing at or below the stored height of its log is ingested (unique seq, height never decreases)");
            if !s.prune {
                vassert!(s.seq == s.past_seq + 1, "C03.ingest-next-seq: an unflagged operation is ingested only with the next sequence number");
                vassert!(s.backlink_is_pred_hash, "C03.ingest-backlink: an unflagged operation is ingested only if it backlinks to the stored head");
            }
        } else if !s.prune {
            vassert!(s.seq == 0, "C03.ingest-missing-prefix: seq > 0 without stored predecessor and without prune flag is not ingested");
        }
    }
}

/// C03 completeness: what does extend the log is ingested (guards against an ingest that rejects everything).
#[cfg_attr(kani, kani::proof)]
#[cfg_attr(kani, kani::unwind(34))]
#[cfg_attr(kani, kani::stub(p2panda_core::Header::hash, crate::env::header_hash_stub))]
#[cfg_attr(kani, kani::stub(constant_time_eq::constant_time_eq_32, crate::env::cte32_stub))]
#[cfg_attr(kani, kani::stub(std::fmt::format, crate::env::fmt_stub))]
#[cfg_attr(kani, kani::stub(p2panda_core::validate_operation, crate::ingest::validate_operation_stub))]
pub fn ingest_accepts_extensions() {
    let s = one_ingest();
    sym::assume(!s.known && !s.tampered);
    let hit = s.has_past && s.same_author && s.same_log;
    if hit && s.seq == s.past_seq + 1 && s.backlink_is_pred_hash {
        vassert!(s.result == Some(true), "C03.ingest-accept-next: the correctly linked next operation is ingested (with or without prune flag)");
    }
    if hit && s.prune && s.seq > s.past_seq {
        vassert!(s.result == Some(true), "C03.ingest-accept-newer-prune-point: a prune-flagged operation above the stored height is ingested without its predecessor");
    }
    if !hit && (s.seq == 0 || s.prune) {
        vassert!(s.result == Some(true), "C03.ingest-accept-first: the first operation of a log not stored yet is ingested");
    }
}

/// C05: through the real ingest, no prune-flagged (or unflagged) operation at or below the stored
/// height of its log is written — a late, older prune point does not bring a pruned prefix back.
#[cfg_attr(kani, kani::proof)]
#[cfg_attr(kani, kani::unwind(34))]
#[cfg_attr(kani, kani::stub(p2panda_core::Header::hash, crate::env::header_hash_stub))]
#[cfg_attr(kani, kani::stub(constant_time_eq::constant_time_eq_32, crate::env::cte32_stub))]
#[cfg_attr(kani, kani::stub(std::fmt::format, crate::env::fmt_stub))]
#[cfg_attr(kani, kani::stub(p2panda_core::validate_operation, crate::ingest::validate_operation_stub))]
pub fn ingest_never_below_stored_height() {
    let s = one_ingest();
    sym::assume(s.has_past && s.same_author && s.same_log);
    witness!(s.result == Some(true) && s.prune, "witness: prune-flagged operation ingested above the stored height");
    witness!(s.result.is_none() && s.prune && s.seq > 0 && s.seq <= s.past_seq, "witness: late older prune-flagged operation rejected");
    if s.result == Some(true) && s.prune {
        vassert!(s.seq > s.past_seq, "C05.ingest-no-return-flagged: a prune-flagged operation at or below the stored height is not ingested");
    }
    if s.result == Some(true) && !s.prune {
        vassert!(s.seq > s.past_seq, "C05.ingest-no-return-unflagged: an unflagged operation at or below the stored height is not ingested");
    }
    if s.seq <= s.past_seq {
        vassert!(s.committed.is_none(), "C05.ingest-no-write-below: nothing at or below the stored height is committed");
    }
}

/// C01: ingest validates the operation before it writes anything, and a rejected (or already known)
/// operation leaves no trace in the store.
#[cfg_attr(kani, kani::proof)]
#[cfg_attr(kani, kani::unwind(34))]
#[cfg_attr(kani, kani::stub(p2panda_core::Header::hash, crate::env::header_hash_stub))]
#[cfg_attr(kani, kani::stub(constant_time_eq::constant_time_eq_32, crate::env::cte32_stub))]
#[cfg_attr(kani, kani::stub(std::fmt::format, crate::env::fmt_stub))]
#[cfg_attr(kani, kani::stub(p2panda_core::validate_operation, crate::ingest::validate_operation_stub))]
pub fn ingest_validates_first_and_rejects_cleanly() {
    let s = one_ingest();
    witness!(s.result == Some(true), "witness: an operation is ingested");
    witness!(s.result.is_none() && !s.tampered, "witness: an authentic operation that does not extend its log is rejected");
    witness!(s.tampered, "witness: a tampered operation arrives");
    if s.tampered {
        vassert!(s.result.is_none(), "C01.ingest-rejects-tampered: an operation that fails validation is rejected by ingest, whatever the store holds");
        vassert!(s.inserts == 0 && s.commits == 0, "C01.ingest-validates-first: a tampered operation is rejected before anything is written or committed");
    }
    if s.result != Some(true) {
        vassert!(s.committed.is_none(), "C01.ingest-reject-no-trace: a rejected or already known operation leaves the store unchanged");
    }
}

/// Native search fallback (when Kani's trace is too large for concrete playback): the harness' input
/// domain with sequence numbers in 0..4 is enumerated against the natively compiled real code.
#[cfg(not(kani))]
pub fn search(name: &str) -> bool {
    let f: fn() = match name {
        "ingest::ingest_accepts_only_extensions" => ingest_accepts_only_extensions,
        "ingest::ingest_accepts_extensions" => ingest_accepts_extensions,
        "ingest::ingest_never_below_stored_height" => ingest_never_below_stored_height,
        "ingest::ingest_validates_first_and_rejects_cleanly" => ingest_validates_first_and_rejects_cleanly,
        _ => return false,
    };
    sym::search(f, 200_000);
    true
}

pub fn dispatch(name: &str) -> bool {
    match name {
        "ingest::ingest_accepts_only_extensions" => ingest_accepts_only_extensions(),
        "ingest::ingest_accepts_extensions" => ingest_accepts_extensions(),
        "ingest::ingest_never_below_stored_height" => ingest_never_below_stored_height(),
        "ingest::ingest_validates_first_and_rejects_cleanly" => ingest_validates_first_and_rejects_cleanly(),
        _ => return false,
    }
    true
}
