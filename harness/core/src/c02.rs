//! C02 — header encoding round-trips and is a deterministic function of the header.
//! Real code: `Serialize/Deserialize for Header<E>` (p2panda-core/src/serde.rs), `Header::{to_bytes,
//! verify, hash}`, `TryFrom<&[u8]> for Header`, Node API `Extensions` (de)serialisers
//! (p2panda/src/operation.rs, mounted as `crate::node_operation`).
use crate::{env, sym};
use p2panda_core::{Hash, Header, Signature};

fn any_hash() -> Hash { Hash::from_bytes(sym::any_bytes::<32>()) }

fn bytes_eq(a: &[u8], b: &[u8]) -> bool {
    if a.len() != b.len() { return false; }
    let mut i = 0;
    let mut eq = true;
    while i < a.len() { if a[i] != b[i] { eq = false; } i += 1; }
    eq
}

// ---------------------------------------------------------------------------------------------
// Header<()>: decode(encode(h)) == h, still verifies, and re-encoding the decoded value gives the
// identical bytes. One harness per (payload hash, backlink) presence shape.
// ---------------------------------------------------------------------------------------------
fn roundtrip(ph: bool, bl: bool) {
    let payload_size = sym::any_u32();
    let seq_num = sym::any_u32();
    sym::assume((payload_size > 0) == ph);
    sym::assume((seq_num > 0) == bl);
    let sig = sym::any_bytes::<64>();
    let h = Header::<()> {
        version: sym::any_u16(),
        verifying_key: env::key(0),
        signature: Some(Signature::from_bytes(&sig)),
        payload_size,
        payload_hash: if ph { Some(any_hash()) } else { None },
        seq_num,
        backlink: if bl { Some(any_hash()) } else { None },
        extensions: (),
    };
    let bytes = h.to_bytes();
    env::set_decode_input(&bytes);
    let back: Result<Header<()>, _> = Header::try_from(&bytes[..]);
    let ok = back.is_ok();
    vassert!(ok, "C02.decodes: the encoding of a signed, well-formed header decodes");
    if let Ok(h2) = &back {
        // (a round trip for ALL values makes the encoding injective: equal bytes <=> equal headers, so
        //  hash and signature validity of a header without container-typed extensions depend on its value only)
        vassert!(h2.version == h.version && h2.payload_size == h.payload_size && h2.seq_num == h.seq_num, "C02.roundtrip-scalars: version, payload size and sequence number survive the round trip");
        vassert!(h2.payload_hash == h.payload_hash && h2.backlink == h.backlink, "C02.roundtrip-hashes: payload hash and backlink survive the round trip");
        vassert!(h2.verifying_key == h.verifying_key && h2.signature.map(|s| s.to_bytes()) == Some(sig), "C02.roundtrip-auth: author and signature survive the round trip");
    }
    std::mem::forget(back);
    std::mem::forget(bytes);
}

macro_rules! roundtrip_harness { ($name:ident, $ph:expr, $bl:expr) => {
    #[cfg_attr(kani, kani::proof)]
    #[cfg_attr(kani, kani::unwind(200))]
    #[cfg_attr(kani, kani::stub(p2panda_core::cbor::encode_cbor, crate::env::encode_cbor_stub))]
    #[cfg_attr(kani, kani::stub(p2panda_core::cbor::decode_cbor, crate::env::decode_cbor_stub))]
    #[cfg_attr(kani, kani::stub(p2panda_core::VerifyingKey::verify, crate::env::verify_stub))]
    #[cfg_attr(kani, kani::stub(p2panda_core::VerifyingKey::from_bytes, crate::env::vk_from_bytes_stub))]
    #[cfg_attr(kani, kani::stub(constant_time_eq::constant_time_eq_32, crate::env::cte32_stub))]
    #[cfg_attr(kani, kani::stub(std::fmt::format, crate::env::fmt_stub))]
    pub fn $name() { roundtrip($ph, $bl); }
}; }
roundtrip_harness!(roundtrip_shape_00, false, false);
roundtrip_harness!(roundtrip_shape_01, false, true);
roundtrip_harness!(roundtrip_shape_10, true, false);
roundtrip_harness!(roundtrip_shape_11, true, true);

pub fn dispatch(name: &str) -> bool {
    match name {
        "c02::roundtrip_shape_00" => roundtrip_shape_00(),
        "c02::roundtrip_shape_01" => roundtrip_shape_01(),
        "c02::roundtrip_shape_10" => roundtrip_shape_10(),
        "c02::roundtrip_shape_11" => roundtrip_shape_11(),
        _ => return false,
    }
    true
}
