//! C05 — pruned log prefixes never come back.
//!
//! After a prune-flagged operation at seq N was ingested, the stored latest entry of that log has
//! seq >= N (C03: heights never decrease). So it suffices that NO operation — prune-flagged or not —
//! is accepted at or below the stored latest sequence number: nothing below N is ever stored again.
//! Real code: `validate_prunable_backlink` (p2panda-core/src/prune.rs).
use crate::c03::one_step;
use crate::sym;

#[cfg_attr(kani, kani::proof)]
#[cfg_attr(kani, kani::unwind(34))]
#[cfg_attr(kani, kani::stub(p2panda_core::Header::hash, crate::env::header_hash_stub))]
#[cfg_attr(kani, kani::stub(constant_time_eq::constant_time_eq_32, crate::env::cte32_stub))]
#[cfg_attr(kani, kani::stub(std::fmt::format, crate::env::fmt_stub))]
pub fn pruned_prefix_never_returns() {
    let s = one_step();
    // ingest looks the predecessor up under the incoming operation's own (author, log)
    sym::assume(s.has_past && s.same_author);
    witness!(s.ok && s.prune, "witness: prune-flagged operation accepted above the stored height");
    witness!(s.ok && !s.prune, "witness: unflagged operation accepted");
    witness!(s.prune && s.seq <= s.past_seq && s.seq > 0, "witness: late older prune-flagged operation arrives");
    if s.ok && s.prune {
        vassert!(s.seq > s.past_seq, "C05.no-return-flagged: a prune-flagged operation at or below the stored height is rejected");
    }
    if s.ok && !s.prune {
        vassert!(s.seq > s.past_seq, "C05.no-return-unflagged: an unflagged operation at or below the stored height is rejected");
    }
}

/// Liveness side: a prune-flagged operation strictly above the stored height is still accepted
/// (the repair must not simply reject prune points).
#[cfg_attr(kani, kani::proof)]
#[cfg_attr(kani, kani::unwind(34))]
#[cfg_attr(kani, kani::stub(p2panda_core::Header::hash, crate::env::header_hash_stub))]
#[cfg_attr(kani, kani::stub(constant_time_eq::constant_time_eq_32, crate::env::cte32_stub))]
#[cfg_attr(kani, kani::stub(std::fmt::format, crate::env::fmt_stub))]
pub fn newer_prune_point_accepted() {
    let s = one_step();
    sym::assume(s.prune && s.same_author);
    if !s.has_past || s.seq > s.past_seq {
        vassert!(s.ok, "C05.accept-newer: a prune-flagged operation above the stored height is accepted without its predecessor");
    }
}
