//! Harness crate "core" (style P): path dependency on the real p2panda-core.
//! Serves C18 (hybrid timestamps), C03/C05 (backlink validation), C01 (operation validation).
//! p2panda-stream's `ingest/operation.rs` is mounted verbatim as `ingest_real` (style S2) for the ingest harnesses.
#![allow(unused)]
#[macro_use]
pub mod sym;
pub mod c02;
pub mod env;
pub mod mcodec;
pub mod c01;
pub mod c18;
pub mod c03;
pub mod c05;
#[path = "staged/ingest_operation.rs"]
pub mod ingest_real;
pub mod ingest;

#[cfg(all(test, not(kani)))]
mod replay_entry {
    #[test]
    fn verif_replay_entry() {
        let name = std::env::var("VERIF_HARNESS").expect("VERIF_HARNESS");
        if std::env::var("VERIF_SEARCH").is_ok() {
            if !crate::ingest::search(&name) { panic!("no search mode for {name}"); }
            return;
        }
        let script = std::fs::read_to_string(std::env::var("VERIF_SCRIPT").expect("VERIF_SCRIPT")).unwrap();
        crate::sym::script::load(crate::sym::script::parse(&script));
        match name.as_str() {
            "c18::increment_is_strict" => crate::c18::increment_is_strict(),
            "c18::two_increments" => crate::c18::two_increments(),
            n if crate::c02::dispatch(n) => {}
            n if crate::ingest::dispatch(n) => {}
            "c01::accepted_is_well_formed" => crate::c01::accepted_is_well_formed(),
            "c01::tamper_shape_00" => crate::c01::tamper_shape_00(),
            "c01::tamper_shape_01" => crate::c01::tamper_shape_01(),
            "c01::tamper_shape_10" => crate::c01::tamper_shape_10(),
            "c01::tamper_shape_11" => crate::c01::tamper_shape_11(),
            "c01::body_tamper_rejected" => crate::c01::body_tamper_rejected(),
            "c03::accepted_extends_chain" => crate::c03::accepted_extends_chain(),
            "c03::extending_operation_accepted" => crate::c03::extending_operation_accepted(),
            "c03::accepted_is_above_stored_height" => crate::c03::accepted_is_above_stored_height(),
            "c05::pruned_prefix_never_returns" => crate::c05::pruned_prefix_never_returns(),
            "c05::newer_prune_point_accepted" => crate::c05::newer_prune_point_accepted(),
            other => panic!("unknown harness {other}"),
        }
        println!("REPLAY-DONE");
    }
}
