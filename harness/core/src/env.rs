//! Environment control shared by the solver build and the native replay build.
//!
//! Wall clock: under Kani `Timestamp::now` is stubbed to return `NOW_MICROS` (any u64 chosen by the
//! solver); natively the repository's own `test_utils` mock clock is set to the same value.
use p2panda_core::timestamp::Timestamp;

pub static mut NOW_MICROS: u64 = 0;

pub fn set_wall_clock_micros(v: u64) {
    unsafe { NOW_MICROS = v; }
    #[cfg(not(kani))]
    {
        mock_instant::thread_local::MockClock::set_system_time(std::time::Duration::from_micros(v));
    }
}

/// Kani stub for `p2panda_core::timestamp::Timestamp::now`.
pub fn timestamp_now_stub() -> Timestamp {
    Timestamp::new(unsafe { NOW_MICROS })
}

// ------------------------------------------------------------------------------------------------
// Keys: two distinct authors without running Ed25519 point decompression under the solver.
// ------------------------------------------------------------------------------------------------
use p2panda_core::{Hash, VerifyingKey};

/// Author number `i`. Natively a real key derived from a fixed seed; under Kani the default key with
/// its compressed bytes overwritten (equality/ordering/serialisation of `VerifyingKey` only look at
/// the compressed bytes).
pub fn key(i: u8) -> VerifyingKey {
    #[cfg(kani)]
    {
        let k = VerifyingKey::default();
        if i != 0 {
            let p = k.as_bytes().as_ptr() as *mut u8;
            unsafe { std::ptr::write_bytes(p, i, 32); }
        }
        k
    }
    #[cfg(not(kani))]
    {
        p2panda_core::SigningKey::from_bytes(&[i.wrapping_add(1); 32]).verifying_key()
    }
}

// ------------------------------------------------------------------------------------------------
// Hash of the stored predecessor: BLAKE3 is not bit-blasted. Under Kani `Header::hash` is stubbed to
// return PAST_HASH (an arbitrary 32-byte value = "whatever the real hash is"); natively the real
// BLAKE3 hash of the predecessor is used. Both modes consume the same script values.
// ------------------------------------------------------------------------------------------------
pub static mut PAST_HASH: [u8; 32] = [0; 32];

pub fn header_hash_stub<E: p2panda_core::Extensions>(_h: &p2panda_core::Header<E>) -> Hash {
    Hash::from_bytes(unsafe { PAST_HASH })
}

pub fn declare_past_hash<E: p2panda_core::Extensions>(past: &p2panda_core::Header<E>) -> Hash {
    let sym_bytes = crate::sym::any_bytes::<32>();
    #[cfg(kani)]
    {
        let _ = past;
        unsafe { PAST_HASH = sym_bytes; }
        Hash::from_bytes(sym_bytes)
    }
    #[cfg(not(kani))]
    {
        let _ = sym_bytes;
        past.hash()
    }
}

/// Plain-loop stand-in for `constant_time_eq::constant_time_eq_32` (inline asm is unsupported).
pub fn cte32_stub(a: &[u8; 32], b: &[u8; 32]) -> bool {
    let mut i = 0;
    let mut eq = true;
    while i < 32 {
        if a[i] != b[i] { eq = false; }
        i += 1;
    }
    eq
}

pub fn fmt_stub(_args: std::fmt::Arguments<'_>) -> String { String::new() }
