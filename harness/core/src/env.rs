//! Environment control shared by the solver build and the native replay build.
//!
//! Wall clock: under Kani `Timestamp::now` is stubbed to return `NOW_MICROS` (any u64 chosen by the
//! solver); natively the repository's own `test_utils` mock clock is set to the same value.
use p2panda_core::timestamp::Timestamp;

pub static mut NOW_MICROS: u64 = 0;

pub fn set_wall_clock_micros(v: u64) {
    unsafe { NOW_MICROS = v; }
    #[cfg(not(kani))]
    {
        mock_instant::thread_local::MockClock::set_system_time(std::time::Duration::from_micros(v));
    }
}

/// Kani stub for `p2panda_core::timestamp::Timestamp::now`.
pub fn timestamp_now_stub() -> Timestamp {
    Timestamp::new(unsafe { NOW_MICROS })
}

// ------------------------------------------------------------------------------------------------
// Keys: two distinct authors without running Ed25519 point decompression under the solver.
// ------------------------------------------------------------------------------------------------
use p2panda_core::{Hash, VerifyingKey};

/// Author number `i`. Natively a real key derived from a fixed seed; under Kani the default key with
/// its compressed bytes overwritten (equality/ordering/serialisation of `VerifyingKey` only look at
/// the compressed bytes).
pub fn key(i: u8) -> VerifyingKey {
    #[cfg(kani)]
    {
        let k = VerifyingKey::default();
        if i != 0 {
            let p = k.as_bytes().as_ptr() as *mut u8;
            unsafe { std::ptr::write_bytes(p, i, 32); }
        }
        k
    }
    #[cfg(not(kani))]
    {
        p2panda_core::SigningKey::from_bytes(&[i.wrapping_add(1); 32]).verifying_key()
    }
}

// ------------------------------------------------------------------------------------------------
// Hash of the stored predecessor: BLAKE3 is not bit-blasted. Under Kani `Header::hash` is stubbed to
// return PAST_HASH (an arbitrary 32-byte value = "whatever the real hash is"); natively the real
// BLAKE3 hash of the predecessor is used. Both modes consume the same script values.
// ------------------------------------------------------------------------------------------------
pub static mut PAST_HASH: [u8; 32] = [0; 32];

pub fn header_hash_stub<E: p2panda_core::Extensions>(_h: &p2panda_core::Header<E>) -> Hash {
    Hash::from_bytes(unsafe { PAST_HASH })
}

pub fn declare_past_hash<E: p2panda_core::Extensions>(past: &p2panda_core::Header<E>) -> Hash {
    let sym_bytes = crate::sym::any_bytes::<32>();
    #[cfg(kani)]
    {
        let _ = past;
        unsafe { PAST_HASH = sym_bytes; }
        Hash::from_bytes(sym_bytes)
    }
    #[cfg(not(kani))]
    {
        let _ = sym_bytes;
        past.hash()
    }
}

/// Plain-loop stand-in for `constant_time_eq::constant_time_eq_32` (inline asm is unsupported).
pub fn cte32_stub(a: &[u8; 32], b: &[u8; 32]) -> bool {
    let mut i = 0;
    let mut eq = true;
    while i < 32 {
        if a[i] != b[i] { eq = false; }
        i += 1;
    }
    eq
}

pub fn fmt_stub(_args: std::fmt::Arguments<'_>) -> String { String::new() }

// ------------------------------------------------------------------------------------------------
// CBOR: ciborium's byte-level encoder is replaced (under Kani only) by the model codec — an
// injective, fixed-width, tagged encoding of the serde data model. p2panda's own Serialize impls
// run unchanged on top of it. Natively the real ciborium runs.
// ------------------------------------------------------------------------------------------------
pub fn encode_cbor_stub<T: serde::Serialize>(value: &T) -> Result<Vec<u8>, p2panda_core::cbor::EncodeError> {
    match crate::mcodec::to_vec(value) {
        Ok(v) => Ok(v),
        // the model codec supports every type these harnesses encode; cutting the error path here keeps
        // io::Error's recursive drop glue (reachable through EncodeError) out of the formula
        Err(_) => { crate::sym::assume(false); unreachable!() }
    }
}

// ------------------------------------------------------------------------------------------------
// Signatures (idealised, EUF-CMA): exactly one signature exists in the world of a harness — the one
// the honest author produced with `sign_honestly`. `VerifyingKey::verify` accepts iff key, message
// bytes and signature are exactly the recorded ones. Natively real Ed25519 signs and verifies.
// ------------------------------------------------------------------------------------------------
pub const MAXMSG: usize = 400;
pub static mut SIGNED_LEN: usize = usize::MAX; // usize::MAX = nothing signed yet
pub static mut SIGNED_MSG: [u8; MAXMSG] = [0; MAXMSG];
pub static mut SIGNED_SIG: [u8; 64] = [0; 64];
pub static mut SIGNED_KEY: u8 = 0;
pub static mut VERIFY_CALLS: u32 = 0;

pub fn verify_stub(key: &VerifyingKey, bytes: &[u8], signature: &p2panda_core::Signature) -> bool {
    unsafe {
        VERIFY_CALLS += 1;
        if SIGNED_LEN == usize::MAX || bytes.len() != SIGNED_LEN { return false; }
        if *key != crate::env::key(SIGNED_KEY) { return false; }
        let sb = signature.to_bytes();
        let mut i = 0;
        while i < 64 { if sb[i] != SIGNED_SIG[i] { return false; } i += 1; }
        let mut i = 0;
        while i < bytes.len() { if bytes[i] != SIGNED_MSG[i] { return false; } i += 1; }
        true
    }
}

/// The honest author `author` signs `header` (signature field is overwritten).
pub fn sign_honestly<E: p2panda_core::Extensions>(header: &mut p2panda_core::Header<E>, author: u8) {
    let sig = crate::sym::any_bytes::<64>();
    header.verifying_key = key(author);
    #[cfg(kani)]
    {
        header.signature = None;
        let bytes = header.to_bytes();
        unsafe {
            assert!(bytes.len() <= MAXMSG, "model: signed message fits the oracle buffer");
            SIGNED_LEN = bytes.len();
            let mut i = 0;
            while i < bytes.len() { SIGNED_MSG[i] = bytes[i]; i += 1; }
            SIGNED_SIG = sig;
            SIGNED_KEY = author;
        }
        std::mem::forget(bytes);
        header.signature = Some(p2panda_core::Signature::from_bytes(&sig));
    }
    #[cfg(not(kani))]
    {
        let _ = sig;
        let sk = p2panda_core::SigningKey::from_bytes(&[author.wrapping_add(1); 32]);
        header.sign(&sk);
    }
}

// ------------------------------------------------------------------------------------------------
// Body hashing: BLAKE3 replaced (under Kani) by an injective function for bodies of <= 4 bytes.
// ------------------------------------------------------------------------------------------------
pub fn digest_stub<T: AsRef<[u8]>>(buf: T) -> Hash {
    let b = buf.as_ref();
    let mut out = [0u8; 32];
    out[0] = b.len() as u8;
    out[31] = 0xB0; // domain tag: never equal to a free symbolic hash by construction only if assumed
    let mut i = 0;
    while i < b.len() && i < 4 { out[1 + i] = b[i]; i += 1; }
    Hash::from_bytes(out)
}

// ------------------------------------------------------------------------------------------------
// CBOR decoding: `decode_cbor(reader)` is replaced (under Kani only) by the model codec's decoder
// reading the bytes the harness registered in DECODE_INPUT (the generic `Read` plumbing of the real
// function is not the subject). Natively the real ciborium decoder runs on the real bytes.
// ------------------------------------------------------------------------------------------------
pub static mut DECODE_INPUT: Vec<u8> = Vec::new();
pub fn set_decode_input(bytes: &[u8]) { unsafe { DECODE_INPUT = bytes.to_vec(); } }
pub fn decode_cbor_stub<T: for<'a> serde::Deserialize<'a>, R: std::io::Read>(_reader: R) -> Result<T, p2panda_core::cbor::DecodeError> {
    let bytes: &[u8] = unsafe { &*std::ptr::addr_of!(DECODE_INPUT) };
    match crate::mcodec::from_slice::<T>(bytes) {
        Ok(v) => Ok(v),
        Err(_) => Err(p2panda_core::cbor::DecodeError::Syntax(0)),
    }
}

/// Kani stub for `VerifyingKey::from_bytes`/TryFrom: every 32-byte string decodes (over-approximates
/// acceptance; signature validity is decided by the idealised `verify`). No point decompression.
pub fn vk_from_bytes_stub(bytes: &[u8; 32]) -> Result<VerifyingKey, p2panda_core::IdentityError> {
    let k = VerifyingKey::default();
    let p = k.as_bytes().as_ptr() as *mut u8;
    unsafe { std::ptr::copy_nonoverlapping(bytes.as_ptr(), p, 32); }
    Ok(k)
}
