//! Environment control shared by the solver build and the native replay build.
//!
//! Wall clock: under Kani `Timestamp::now` is stubbed to return `NOW_MICROS` (any u64 chosen by the
//! solver); natively the repository's own `test_utils` mock clock is set to the same value.
use p2panda_core::timestamp::Timestamp;

pub static mut NOW_MICROS: u64 = 0;

pub fn set_wall_clock_micros(v: u64) {
    unsafe { NOW_MICROS = v; }
    #[cfg(not(kani))]
    {
        mock_instant::thread_local::MockClock::set_system_time(std::time::Duration::from_micros(v));
    }
}

/// Kani stub for `p2panda_core::timestamp::Timestamp::now`.
pub fn timestamp_now_stub() -> Timestamp {
    Timestamp::new(unsafe { NOW_MICROS })
}
