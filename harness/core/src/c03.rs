//! C03 — ingest keeps every stored log a hash-linked, gap-free chain.
//! C05 — pruned log prefixes never come back.
//!
//! Real code: `validate_prunable_backlink` (p2panda-core/src/prune.rs), `validate_backlink`
//! (p2panda-core/src/operation.rs) — the log-integrity decision `ingest_operation` takes against the
//! stored latest entry of the operation's (author, log).
//!
//! One inductive step: ARBITRARY stored latest entry (or none), ARBITRARY incoming header, either
//! prune flag. If every accepted step extends the log by exactly the next entry (or, with prune flag,
//! jumps strictly forward), the chain/uniqueness/monotonic-height clauses hold for histories of any
//! length.
use crate::{env, sym};
use p2panda_core::prune::validate_prunable_backlink;
use p2panda_core::{Hash, Header};

pub struct Step {
    pub has_past: bool,
    pub past_seq: u32,
    pub same_author: bool,
    pub seq: u32,
    pub backlink_is_pred_hash: bool,
    pub backlink_present: bool,
    pub prune: bool,
    pub ok: bool,
}

pub fn one_step() -> Step {
    // stored latest entry of the log
    let has_past = sym::any_bool();
    let past_seq = sym::any_u32();
    // `past.seq_num + 1` overflows at u32::MAX: outside the claim (a log of 2^32 entries)
    sym::assume(past_seq < u32::MAX);
    let past = Header::<()> {
        version: sym::any_u16(),
        verifying_key: env::key(0),
        signature: None,
        payload_size: 0,
        payload_hash: None,
        seq_num: past_seq,
        backlink: None,
        extensions: (),
    };
    let past_hash = env::declare_past_hash(&past);

    // incoming header
    let same_author = sym::any_bool();
    let seq = sym::any_u32();
    let bl_kind = sym::any_below(3);
    let other = sym::any_bytes::<32>();
    let other_hash = Hash::from_bytes(other);
    let backlink = match bl_kind {
        0 => None,
        1 => Some(past_hash),
        _ => {
            sym::assume(other_hash != past_hash);
            Some(other_hash)
        }
    };
    let header = Header::<()> {
        version: sym::any_u16(),
        verifying_key: if same_author { env::key(0) } else { env::key(1) },
        signature: None,
        payload_size: 0,
        payload_hash: None,
        seq_num: seq,
        backlink,
        extensions: (),
    };
    let prune = sym::any_bool();
    let r = validate_prunable_backlink(if has_past { Some(&past) } else { None }, &header, prune);
    let ok = r.is_ok();
    std::mem::forget(r);
    Step { has_past, past_seq, same_author, seq, backlink_is_pred_hash: bl_kind == 1, backlink_present: bl_kind != 0, prune, ok }
}

/// Without prune flag: accepted ⇒ exactly the next entry of the chain.
#[cfg_attr(kani, kani::proof)]
#[cfg_attr(kani, kani::unwind(34))]
#[cfg_attr(kani, kani::stub(p2panda_core::Header::hash, crate::env::header_hash_stub))]
#[cfg_attr(kani, kani::stub(constant_time_eq::constant_time_eq_32, crate::env::cte32_stub))]
#[cfg_attr(kani, kani::stub(std::fmt::format, crate::env::fmt_stub))]
pub fn accepted_extends_chain() {
    let s = one_step();
    sym::assume(!s.prune);
    witness!(s.ok && s.has_past, "witness: an operation is accepted on top of a stored entry");
    witness!(s.ok && !s.has_past, "witness: first operation of a log accepted");
    witness!(!s.ok && s.has_past && s.seq == s.past_seq + 1 && s.same_author, "witness: right seq, wrong backlink rejected");
    if s.ok {
        if s.has_past {
            vassert!(s.same_author, "C03.author: an operation of another author is never accepted into the log");
            vassert!(s.seq == s.past_seq + 1, "C03.next-seq: accepted operation has exactly the next sequence number");
            vassert!(s.backlink_is_pred_hash, "C03.backlink: accepted operation backlinks to the stored entry directly before it");
        } else {
            vassert!(s.seq == 0, "C03.missing-prefix: seq > 0 without stored predecessor and without prune flag is rejected");
        }
    }
}

/// Completeness: the operation that does extend the log is accepted (guards against a check that
/// simply rejects everything).
#[cfg_attr(kani, kani::proof)]
#[cfg_attr(kani, kani::unwind(34))]
#[cfg_attr(kani, kani::stub(p2panda_core::Header::hash, crate::env::header_hash_stub))]
#[cfg_attr(kani, kani::stub(constant_time_eq::constant_time_eq_32, crate::env::cte32_stub))]
#[cfg_attr(kani, kani::stub(std::fmt::format, crate::env::fmt_stub))]
pub fn extending_operation_accepted() {
    let s = one_step();
    if s.has_past && s.same_author && s.seq == s.past_seq + 1 && s.backlink_is_pred_hash {
        vassert!(s.ok, "C03.accept-next: the correctly linked next operation is accepted");
    }
    if !s.has_past && s.seq == 0 {
        vassert!(s.ok, "C03.accept-first: the first operation of an empty log is accepted");
    }
    if !s.has_past && s.prune {
        vassert!(s.ok, "C03.accept-pruned-start: a prune-flagged operation is accepted into an empty log at any seq");
    }
}

/// Without prune flag: an accepted operation is strictly above the stored height
/// (unique sequence numbers, height never decreases).
#[cfg_attr(kani, kani::proof)]
#[cfg_attr(kani, kani::unwind(34))]
#[cfg_attr(kani, kani::stub(p2panda_core::Header::hash, crate::env::header_hash_stub))]
#[cfg_attr(kani, kani::stub(constant_time_eq::constant_time_eq_32, crate::env::cte32_stub))]
#[cfg_attr(kani, kani::stub(std::fmt::format, crate::env::fmt_stub))]
pub fn accepted_is_above_stored_height() {
    let s = one_step();
    sym::assume(s.has_past && !s.prune);
    witness!(s.ok, "witness: accepted on top of a stored entry");
    witness!(!s.ok && s.seq == 0, "witness: restart at seq 0 rejected");
    if s.ok {
        vassert!(s.seq > s.past_seq, "C03.height: an accepted operation is above the stored height (unique seq, height never decreases)");
    }
}
