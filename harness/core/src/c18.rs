//! C18 — Hybrid timestamps strictly increase on every increment.
//! Real code: `HybridTimestamp::increment` (p2panda-core/src/timestamp.rs).
use crate::{env, sym};
use p2panda_core::timestamp::{HybridTimestamp, LamportTimestamp, Timestamp};

/// One increment from ANY (timestamp, lamport) under ANY wall-clock reading.
/// Bound: lamport < u64::MAX (overflow of the logical part is outside the claim).
#[cfg_attr(kani, kani::proof)]
#[cfg_attr(kani, kani::stub(p2panda_core::timestamp::Timestamp::now, crate::env::timestamp_now_stub))]
pub fn increment_is_strict() {
    let t = sym::any_u64();
    let l = sym::any_u64();
    let now = sym::any_u64();
    sym::assume(l < u64::MAX);
    env::set_wall_clock_micros(now);
    let before = HybridTimestamp::from_parts(Timestamp::new(t), LamportTimestamp::new(l));
    let after = before.increment();
    witness!(now < t, "witness: wall clock behind the own timestamp");
    witness!(now == t, "witness: wall clock equal to the own timestamp");
    witness!(now > t, "witness: wall clock ahead");
    vassert!(after > before, "C18.strict: increment returns a strictly greater hybrid timestamp");
}

/// Sequence of two increments under two independent clock readings (a node's successive
/// self-published records): strictly increasing chain.
#[cfg_attr(kani, kani::proof)]
#[cfg_attr(kani, kani::stub(p2panda_core::timestamp::Timestamp::now, crate::env::timestamp_now_stub))]
pub fn two_increments() {
    let t = sym::any_u64();
    let l = sym::any_u64();
    sym::assume(l < u64::MAX - 1);
    let now1 = sym::any_u64();
    let now2 = sym::any_u64();
    let a = HybridTimestamp::from_parts(Timestamp::new(t), LamportTimestamp::new(l));
    env::set_wall_clock_micros(now1);
    let b = a.increment();
    env::set_wall_clock_micros(now2);
    let c = b.increment();
    witness!(now2 < now1, "witness: clock stepped backwards between the two increments");
    // the first link is the one-step harness' business; this one decides the second link
    sym::assume(b > a);
    vassert!(c > b, "C18.strict-seq: second increment of a sequence is strictly greater");
}
