//! C01 — only authentic, well-formed operations are ingested.
//!
//! Real code: `validate_operation`, `validate_header`, `Header::verify`, `Header::to_bytes`
//! (p2panda-core/src/operation.rs) and `Serialize for Header` (p2panda-core/src/serde.rs) — the
//! format/authenticity decision `ingest_operation` takes before it opens a transaction.
use crate::{env, sym};
use p2panda_core::{Body, Hash, Header, Operation, Signature, validate_header, validate_operation};

fn any_hash() -> Hash { Hash::from_bytes(sym::any_bytes::<32>()) }

// ---------------------------------------------------------------------------------------------
// A. well-formedness: every field (and field presence) symbolic, signature verdict symbolic.
// ---------------------------------------------------------------------------------------------
static mut VERDICT: bool = false;
pub fn header_verify_stub<E: p2panda_core::Extensions>(h: &Header<E>) -> bool {
    unsafe { VERDICT && h.signature.is_some() }
}

#[cfg_attr(kani, kani::proof)]
#[cfg_attr(kani, kani::unwind(66))]
#[cfg_attr(kani, kani::stub(p2panda_core::Header::verify, crate::c01::header_verify_stub))]
#[cfg_attr(kani, kani::stub(p2panda_core::Hash::digest, crate::env::digest_stub))]
#[cfg_attr(kani, kani::stub(constant_time_eq::constant_time_eq_32, crate::env::cte32_stub))]
#[cfg_attr(kani, kani::stub(std::fmt::format, crate::env::fmt_stub))]
pub fn accepted_is_well_formed() {
    let verdict = sym::any_bool();
    unsafe { VERDICT = verdict; }
    let has_sig = sym::any_bool();
    let has_ph = sym::any_bool();
    let has_bl = sym::any_bool();
    let mut header = Header::<()> {
        version: sym::any_u16(),
        verifying_key: env::key(0),
        signature: None,
        payload_size: sym::any_u32(),
        payload_hash: if has_ph { Some(any_hash()) } else { None },
        seq_num: sym::any_u32(),
        backlink: if has_bl { Some(any_hash()) } else { None },
        extensions: (),
    };
    let sig = sym::any_bytes::<64>();
    // natively the verdict is realised with real Ed25519: a genuine signature or a garbage one
    #[cfg(not(kani))]
    {
        if has_sig {
            if verdict { header.sign(&p2panda_core::SigningKey::from_bytes(&[1; 32])); }
            else { header.signature = Some(Signature::from_bytes(&sig)); }
        }
    }
    #[cfg(kani)]
    { if has_sig { header.signature = Some(Signature::from_bytes(&sig)); } }

    // body: absent, or 0..=4 symbolic bytes
    let body_kind = sym::any_below(6); // 0 = none, 1..=5 -> len 0..=4
    let bb = sym::any_bytes::<4>();
    let body = if body_kind == 0 { None } else { Some(Body::new(&bb[..(body_kind as usize - 1)])) };
    let body_len = body.as_ref().map(|b| b.size());
    let body_hash = body.as_ref().map(|b| b.hash());

    let op = Operation { hash: any_hash(), header: header.clone(), body };
    let r = validate_operation(&op);
    let ok = r.is_ok();
    witness!(ok && body_kind > 1, "witness: operation with a non-empty body accepted");
    witness!(ok && body_kind == 0 && header.payload_size > 0, "witness: header-only operation with payload info accepted");
    witness!(!ok && verdict && has_sig, "witness: correctly signed but malformed operation rejected");
    if ok {
        vassert!(has_sig, "C01.signed: an accepted operation carries a signature");
        vassert!(verdict, "C01.verified: an accepted operation's signature verified");
        vassert!(header.version == 1, "C01.version: an accepted operation has the supported version");
        vassert!(header.payload_hash.is_some() == (header.payload_size > 0), "C01.payload-info: payload hash present iff payload size > 0");
        vassert!(header.backlink.is_some() == (header.seq_num > 0), "C01.backlink-info: backlink present iff seq_num > 0");
        if let Some(len) = body_len {
            vassert!(len == header.payload_size, "C01.body-size: an attached body has the claimed size");
            vassert!(header.payload_size == 0 || body_hash == header.payload_hash, "C01.body-hash: an attached body has the claimed hash");
        }
    }
    std::mem::forget(r);
    std::mem::forget(op);
}

// ---------------------------------------------------------------------------------------------
// B. authenticity: the honest author signs H0; the network delivers H. Accepted => H == H0 in
//    every signed field. Presence shape (payload hash, backlink) concrete per harness.
// ---------------------------------------------------------------------------------------------
fn tamper(ph: bool, bl: bool) {
    let payload_size = sym::any_u32();
    let seq_num = sym::any_u32();
    sym::assume((payload_size > 0) == ph);
    sym::assume((seq_num > 0) == bl);
    let mut h0 = Header::<()> {
        version: 1,
        verifying_key: env::key(0),
        signature: None,
        payload_size,
        payload_hash: if ph { Some(any_hash()) } else { None },
        seq_num,
        backlink: if bl { Some(any_hash()) } else { None },
        extensions: (),
    };
    env::sign_honestly(&mut h0, 0);

    // the delivered copy: at most one field differs
    let mut h = h0.clone();
    let which = sym::any_below(8);
    let v16 = sym::any_u16();
    let v32 = sym::any_u32();
    let vh = sym::any_bytes::<32>();
    let sig_pos = sym::any_below(64);
    let sig_xor = sym::any_u8();
    match which {
        0 => {}
        1 => { sym::assume(v16 != h0.version); h.version = v16; }
        2 => { h.verifying_key = env::key(1); }
        3 => { sym::assume(v32 != h0.payload_size && (v32 > 0) == ph); h.payload_size = v32; }
        4 => { if ph { sym::assume(Some(Hash::from_bytes(vh)) != h0.payload_hash); h.payload_hash = Some(Hash::from_bytes(vh)); } }
        5 => { sym::assume(v32 != h0.seq_num && (v32 > 0) == bl); h.seq_num = v32; }
        6 => { if bl { sym::assume(Some(Hash::from_bytes(vh)) != h0.backlink); h.backlink = Some(Hash::from_bytes(vh)); } }
        _ => {
            sym::assume(sig_xor != 0);
            let mut sb = h0.signature.unwrap().to_bytes();
            sb[sig_pos as usize] ^= sig_xor;
            h.signature = Some(Signature::from_bytes(&sb));
        }
    }
    let changed = h != h0;
    let r = validate_header(&h);
    let ok = r.is_ok();
    witness!(ok, "witness: the untampered operation is accepted");
    witness!(!ok && which == 7, "witness: flipped signature byte rejected");
    if !changed {
        vassert!(ok, "C01.accept-honest: the honestly signed, well-formed operation is accepted");
    } else {
        vassert!(!ok, "C01.tamper: any single-field change of a signed header is rejected");
    }
    std::mem::forget(r);
}

macro_rules! tamper_harness {
    ($name:ident, $ph:expr, $bl:expr) => {
        #[cfg_attr(kani, kani::proof)]
        #[cfg_attr(kani, kani::unwind(410))]
        #[cfg_attr(kani, kani::stub(p2panda_core::cbor::encode_cbor, crate::env::encode_cbor_stub))]
        #[cfg_attr(kani, kani::stub(p2panda_core::VerifyingKey::verify, crate::env::verify_stub))]
        #[cfg_attr(kani, kani::stub(constant_time_eq::constant_time_eq_32, crate::env::cte32_stub))]
        #[cfg_attr(kani, kani::stub(std::fmt::format, crate::env::fmt_stub))]
        pub fn $name() { tamper($ph, $bl); }
    };
}
tamper_harness!(tamper_shape_00, false, false);
tamper_harness!(tamper_shape_01, false, true);
tamper_harness!(tamper_shape_10, true, false);
tamper_harness!(tamper_shape_11, true, true);

// ---------------------------------------------------------------------------------------------
// C. body tampering: header honest and accepted, body differs in one byte or in length.
// ---------------------------------------------------------------------------------------------
#[cfg_attr(kani, kani::proof)]
#[cfg_attr(kani, kani::unwind(66))]
#[cfg_attr(kani, kani::stub(p2panda_core::Header::verify, crate::c01::header_verify_stub))]
#[cfg_attr(kani, kani::stub(p2panda_core::Hash::digest, crate::env::digest_stub))]
#[cfg_attr(kani, kani::stub(constant_time_eq::constant_time_eq_32, crate::env::cte32_stub))]
#[cfg_attr(kani, kani::stub(std::fmt::format, crate::env::fmt_stub))]
pub fn body_tamper_rejected() {
    unsafe { VERDICT = true; }
    let len = sym::any_below(4) + 1; // 1..=4 bytes
    let bb = sym::any_bytes::<4>();
    let body0 = Body::new(&bb[..len as usize]);
    let mut header = Header::<()> {
        version: 1,
        verifying_key: env::key(0),
        signature: None,
        payload_size: body0.size(),
        payload_hash: Some(body0.hash()),
        seq_num: 0,
        backlink: None,
        extensions: (),
    };
    let sig = sym::any_bytes::<64>();
    #[cfg(not(kani))]
    { header.sign(&p2panda_core::SigningKey::from_bytes(&[1; 32])); }
    #[cfg(kani)]
    { header.signature = Some(Signature::from_bytes(&sig)); }
    let _ = sig;

    // delivered body: one byte changed, or one byte shorter/longer
    let kind = sym::any_below(4);
    let pos = sym::any_below(4);
    let xor = sym::any_u8();
    let mut nb = bb;
    let mut nlen = len as usize;
    match kind {
        0 => {}
        1 => { sym::assume(pos < len && xor != 0); nb[pos as usize] ^= xor; }
        2 => { nlen -= 1; }
        _ => { sym::assume(len < 4); nlen += 1; }
    }
    let body = Body::new(&nb[..nlen]);
    let op = Operation { hash: any_hash(), header, body: Some(body) };
    let r = validate_operation(&op);
    let ok = r.is_ok();
    witness!(ok, "witness: untampered body accepted");
    if kind == 0 {
        vassert!(ok, "C01.accept-body: the matching body is accepted");
    } else {
        vassert!(!ok, "C01.body-tamper: a body changed in one byte or in length is rejected");
    }
    std::mem::forget(r);
    std::mem::forget(op);
}
