"""Staging: put p2panda's *current* sources in front of Kani (DESIGN.md section 2).

Every run regenerates the harness crate from /repo's working tree.  Rewrite rules must match exactly
the stated number of times, otherwise the run stops as inconclusive ("staging rule did not apply").
"""
import hashlib
import os
import re
import shutil
import subprocess


class StagingError(Exception):
    pass


def _copy(src, dst):
    os.makedirs(os.path.dirname(dst), exist_ok=True)
    shutil.copy2(src, dst)


def _write_keep_mtime(path, text, like):
    os.makedirs(os.path.dirname(path), exist_ok=True)
    with open(path, "w") as f:
        f.write(text)
    st = os.stat(like)
    os.utime(path, (st.st_atime, st.st_mtime))


def apply_rewrites(text, rewrites, what):
    for rw in rewrites:
        pat, repl = rw[0], rw[1]
        count = rw[2] if len(rw) > 2 else 1
        flags = re.M | (re.S if (len(rw) > 3 and rw[3] == "S") else 0)
        new, n = re.subn(pat, repl, text, flags=flags)
        if count == "+":
            ok = n >= 1
        elif count == "*":
            ok = True
        else:
            ok = (n == count)
        if not ok:
            raise StagingError("staging rule did not apply to %s: /%s/ matched %d times, expected %s" % (what, pat, n, count))
        text = new
    return text


def find_fn_line(path, pattern, after=None):
    try:
        armed = after is None
        for i, line in enumerate(open(path, errors="replace"), 1):
            if not armed:
                armed = bool(re.search(after, line))
                continue
            if re.search(pattern, line):
                return i
    except OSError:
        pass
    return None


def stage(unit, workdir, repo, verif):
    """Returns (crate_dir, functions_info)."""
    shutil.rmtree(workdir, ignore_errors=True)
    os.makedirs(workdir)
    crate_dir = None
    repo_dir = None
    for op in unit["stage"]:
        kind = op[0]
        if kind == "crate":
            crate_dir = os.path.join(workdir, "crate")
            shutil.copytree(os.path.join(verif, op[1]), crate_dir, copy_function=shutil.copy2)
            # path dependencies into the repository follow VERIF_REPO
            for root, _, files in os.walk(crate_dir):
                for fn in files:
                    if fn == "Cargo.toml":
                        p = os.path.join(root, fn)
                        t = open(p).read()
                        t2 = t.replace('"/repo/', '"' + os.path.join(workdir, "repo") + "/").replace('"/verif/', '"' + verif.rstrip("/") + "/")
                        if t2 != t:
                            _write_keep_mtime(p, t2, p)
        elif kind == "repo":
            # full scratch copy of the workspace (3.6 MB without target/.git)
            repo_dir = os.path.join(workdir, "repo")
            if crate_dir is None:
                crate_dir = repo_dir
            r = subprocess.run(["rsync", "-a", "--exclude", "/target", "--exclude", ".git",
                                repo.rstrip("/") + "/", repo_dir + "/"], capture_output=True, text=True)
            if r.returncode != 0:
                raise StagingError("rsync failed: " + r.stderr[-500:])
        elif kind == "lock_none":
            pass  # crate with no registry dependencies
        elif kind == "lock":
            _copy(os.path.join(repo, "Cargo.lock"), os.path.join(crate_dir, "Cargo.lock"))
        elif kind == "shared_repo":
            _copy(os.path.join(verif, op[1]), os.path.join(workdir, "repo", op[2]))
        elif kind == "shared":
            _copy(os.path.join(verif, op[1]), os.path.join(crate_dir, op[2]))
        elif kind == "mount":
            # copy one real source file into the harness crate, with rewrite rules
            src = os.path.join(repo, op[1])
            if not os.path.exists(src):
                raise StagingError("file under test is gone: " + op[1])
            text = open(src).read()
            text = apply_rewrites(text, op[3] if len(op) > 3 else [], op[1])
            _write_keep_mtime(os.path.join(crate_dir, op[2]), text, src)
        elif kind == "rewrite":
            # rewrite a file inside the staged copy of the repository
            p = os.path.join(workdir, "repo", op[1])
            if not os.path.exists(p):
                raise StagingError("file under test is gone: " + op[1])
            text = apply_rewrites(open(p).read(), op[2], op[1])
            _write_keep_mtime(p, text, p)
        elif kind == "append":
            p = os.path.join(workdir, "repo", op[1])
            if not os.path.exists(p):
                raise StagingError("file under test is gone: " + op[1])
            inj = open(os.path.join(verif, op[2])).read()
            _write_keep_mtime(p, open(p).read() + "\n" + inj, p)
        elif kind == "append_crate":
            p = os.path.join(crate_dir, op[1])
            inj = open(os.path.join(verif, op[2])).read()
            _write_keep_mtime(p, open(p).read() + "\n" + inj, p)
        elif kind == "write":
            _write_keep_mtime(os.path.join(crate_dir, op[1]), op[2], os.path.join(verif, "check"))
        elif kind == "toml_append":
            p = os.path.join(crate_dir, op[1])
            _write_keep_mtime(p, open(p).read() + "\n" + op[2], p)
        else:
            raise StagingError("unknown staging op " + kind)
    if unit.get("subdir"):
        pass
    # cargo offline config
    cfgdir = os.path.join(crate_dir, ".cargo")
    os.makedirs(cfgdir, exist_ok=True)
    cfgp = os.path.join(cfgdir, "config.toml")
    if not os.path.exists(cfgp):
        with open(cfgp, "w") as f:
            f.write("[net]\noffline = true\n")
    # functions encoded: file:line looked up in the current tree
    finfo = []
    for f in unit.get("functions", []):
        rel, name, pat = f[0], f[1], f[2]
        ln = find_fn_line(os.path.join(repo, rel), pat, f[3] if len(f) > 3 else None)
        if ln is None:
            # informational only: if the function is really gone the harness stops compiling (exit 2)
            finfo.append("%s:? %s (signature pattern not found in the current tree)" % (rel, name))
        else:
            finfo.append("%s:%d %s" % (rel, ln, name))
    return crate_dir, finfo


def touch_changed(workdir, cache_dir):
    """cargo decides rebuilds by mtime; staging preserves mtimes so that an unchanged tree is not
    rebuilt.  To be safe against content changes that keep an old mtime, every staged file whose
    content differs from the previous run with this build cache gets a fresh mtime."""
    import json
    import time
    man_path = os.path.join(cache_dir, "staged-files.json")
    try:
        old = json.load(open(man_path))
    except Exception:
        old = {}
    new = {}
    now = time.time()
    for root, dirs, fs in os.walk(workdir):
        dirs[:] = [d for d in dirs if d not in ("target", ".git")]
        for fn in fs:
            p = os.path.join(root, fn)
            try:
                dig = hashlib.sha256(open(p, "rb").read()).hexdigest()
            except OSError:
                continue
            rel = os.path.relpath(p, workdir)
            new[rel] = dig
            if old and old.get(rel) != dig:
                os.utime(p, (now, now))
    os.makedirs(cache_dir, exist_ok=True)
    json.dump(new, open(man_path, "w"))
