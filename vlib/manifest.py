"""Regenerate MANIFEST.json from the registry:  python3 -m vlib.manifest"""
import json
from .registry import PROPS, NOT_APPLICABLE

def build():
    checks = []
    for pid in sorted(PROPS):
        p = PROPS[pid]
        checks.append(dict(
            property_id=pid,
            quick_cmd="./check %s --tier quick" % pid,
            thorough_cmd="./check %s --tier thorough" % pid,
            evidence_file="/verif/evidence/%s.json" % pid,
            replay_cmd_template="./check %s --replay {path}" % pid,
            engine="kani-cbmc",
            level_claimed=dict(
                category="model_checking",
                text=p["level_text"],
                design_ref="DESIGN.md section 5, " + pid,
            ),
            level_note=p["level_note"],
            technique="bounded symbolic execution of the real Rust functions (Kani 0.68 -> CBMC 6.11 -> cadical SAT), counterexamples replayed natively",
        ))
    return dict(
        version=1,
        setup_cmd="./setup.sh",
        hooks=dict(
            guard="p2panda_p2panda_verif",
            enable="none needed: harnesses reach private items by staging a scratch copy of /repo (appending a #[cfg(kani)] module) or by mounting single source files; no hook commit exists in /repo",
            baseline_off_cmd="cd /repo && RUSTUP_TOOLCHAIN=1.96.0 cargo nextest run --workspace --no-fail-fast --tool-config-file pb:/w/lib/nextest.toml --profile pb --test-threads 8 --offline",
            source_commits=[],
            add_only=True,
        ),
        engines=[dict(name="kani-cbmc", path="/verif/check",
                      serves_properties=sorted(PROPS),
                      kind_free_text="Kani 0.68 proof harnesses over the real p2panda functions, CBMC 6.11 with cadical decides; environment models in /verif/models")],
        checks=checks,
        notes="Exit codes of ./check: 0 held within bounds, 1 VIOLATION (replayed natively), 2 inconclusive (timeout, OOM, vacuous harness, staging rule mismatch, harness no longer compiles). Known findings: /verif/KNOWN_FINDINGS.txt.",
        not_applicable=[dict(property_id=k, reason=v) for k, v in sorted(NOT_APPLICABLE.items()) if k not in PROPS],
    )

if __name__ == "__main__":
    json.dump(build(), open("/verif/MANIFEST.json", "w"), indent=1)
    print("MANIFEST.json written:", len(build()["checks"]), "checks,", len(build()["not_applicable"]), "not applicable")
