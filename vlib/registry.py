"""Which harnesses decide which property (DESIGN.md section 5)."""

SYM = ("shared", "models/sym.rs", "src/sym.rs")

UNITS = {}
PROPS = {}

# ------------------------------------------------------------------------------------------------
# unit "core": style P, path dependency on the real p2panda-core
# ------------------------------------------------------------------------------------------------
UNITS["core"] = dict(
    name="core",
    stage=[("crate", "harness/core"), ("lock",), SYM],
    native_features=["replay"],
    functions=[
        ("p2panda-core/src/timestamp.rs", "HybridTimestamp::increment", r"pub fn increment\(self\) -> Self \{", r"impl HybridTimestamp"),
    ],
    harnesses=[
        dict(name="c18::increment_is_strict", prop="C18", tier="quick", timeout=60,
             encodes="HybridTimestamp::increment, LamportTimestamp::increment, Ord for HybridTimestamp",
             bounds="all u64 timestamp, lamport < u64::MAX, all u64 wall-clock readings"),
        dict(name="c18::two_increments", prop="C18", tier="quick", timeout=60,
             encodes="two chained HybridTimestamp::increment calls",
             bounds="all u64 values, two independent wall-clock readings (not assumed monotone)"),
    ],
)

PROPS["C18"] = dict(
    units=["core"],
    trusted_base=["Kani 0.68 / CBMC 6.11 / cadical", "stub: Timestamp::now returns an arbitrary u64 (wall clock is not assumed monotone)"],
    assumptions=["lamport part < u64::MAX (overflow of the logical clock is outside the claim)"],
    bounds="single increment and chains of two increments; all 64-bit values",
    outside="chains longer than two (each link is an instance of the one-step harness); p2panda-net's increment_timestamp wrapper only forwards to this function",
)

PROPS["C18"].update(
    level_text=("Bounded model checking of the real HybridTimestamp::increment: the solver decides the strict-increase "
                "assertion for every 64-bit (timestamp, lamport, wall-clock) triple and for chains of two increments with "
                "independent clock readings — the quantifier of the property, not a sample of it."),
    level_note="Trusted: Kani/CBMC/cadical; Timestamp::now stubbed to an arbitrary u64; lamport < u64::MAX assumed.",
)

# ------------------------------------------------------------------------------------------------
# Properties this technique cannot decide (reason = measured or structural; DESIGN.md section 5)
# ------------------------------------------------------------------------------------------------
NOT_APPLICABLE = {
    "C04": "the deciding code is a closure run inside thread::spawn + tokio current-thread runtime + spawn_local and its effect is a SQL DELETE; no unit of it can be put in front of CBMC",
    "C08": "subject is SQL executed by libsqlite3 through sqlx (FFI + worker threads); not symbolically executable",
    "C09": "SQLite-backed stores (FFI); not symbolically executable",
    "C10": "SQLite transactions + tokio runtime + tokio::spawn in Drop; concurrency and FFI are outside Kani",
    "C11": "OrdererStore trait fixes std::collections::HashSet in its signature and readiness is a SQL row count; std containers explode in CBMC (2 BTreeMap inserts -> 37 GB)",
    "C15": "process abort + file-backed SQLite + node restart; nothing of it is symbolically executable",
    "C19": "LogSync::run is a 300-line async state machine over BTreeMap/CBOR/BLAKE3 moving ~500-byte operations; the much smaller ingest_operation already exhausts 56 GB in CBMC",
    "C20": "same protocol state machine as C19 plus concurrent store mutation; out of reach (see C19)",
    "C21": "needs two concurrently running protocol sides over a bounded transport; Kani has no concurrency and the state machines are out of reach (see C19)",
    "C22": "TopicLogSync::run: async state machine over tokio broadcast/SelectAll/CBOR; out of reach (see C19)",
    "C23": "manager event stream over tokio broadcast + SelectAll + several sessions; out of reach (see C19); its dedup core is decided under C24",
    "C27": "NodeInfo::update_transports owns Vec<TransportAddress> wrapping iroh's BTreeSet<TransportAddr>: clone/drop glue alone did not finish symbolic execution in 15 min; actor half needs ractor + SQLite",
    "C29": "TopicDropGuard owns a ractor ActorRef and the race is between OS threads inside an async fn calling into the actor; no extractable unit",
    "C30": "correctness rests on BLAKE3 preimage resistance; with the hash idealised nothing of the claim is left, the rest is HashSet plumbing in an async protocol",
    "C31": "GroupCrdt = petgraph DAG + HashMap of states + topological sort over unbounded histories; its algebraic core (state merge) is decided under C32",
    "C35": "X25519/HPKE/XChaCha20-Poly1305 over symbolic keys cannot be bit-blasted; idealised, the remaining DCGKA bookkeeping is HashMap-heavy state over causal histories",
    "C37": "X3DH/X25519/HPKE over symbolic keys cannot be bit-blasted; see C35",
    "C39": "Manager::process as harness entry makes the crypto stack reachable and Kani 0.68 aborts with an internal compiler error (kani-compiler intrinsics.rs:243) before verification starts",
}
