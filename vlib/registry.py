"""Which harnesses decide which property (DESIGN.md section 5)."""

SYM = ("shared", "models/sym.rs", "src/sym.rs")

UNITS = {}
PROPS = {}

# ------------------------------------------------------------------------------------------------
# unit "core": style P, path dependency on the real p2panda-core
# ------------------------------------------------------------------------------------------------
UNITS["core"] = dict(
    name="core",
    stage=[("repo",), ("crate", "harness/core"), ("lock",), SYM, ("shared", "models/mcodec.rs", "src/mcodec.rs"),
           # p2panda-stream's ingest_operation, verbatim (tests stripped: they need SQLite); its store is a model (harness/core/src/ingest.rs)
           ("mount", "p2panda-stream/src/ingest/operation.rs", "src/staged/ingest_operation.rs",
            [(r"^//!", "//", "*"), (r"\n#\[cfg\(test\)\]\nmod tests \{.*\Z", "\n", 1, "S")])],
    repo_paths=["src/staged/"],
    # Kani's memset check on `mem::zeroed::<()>()` in Header::zero_sized_extensions (a zero-sized write through a
    # dangling-but-aligned pointer, which Rust defines as a no-op): spurious, filtered by its exact identity
    ignore_checks=[r"memset destination region writeable @ .*core/src/ptr/mod\.rs:\d+ in std::ptr::write_bytes::<\(\)>"],
    native_features=["replay"],
    functions=[
        ("p2panda-core/src/operation.rs", "validate_operation", r"pub fn validate_operation"),
        ("p2panda-core/src/operation.rs", "validate_header", r"pub fn validate_header"),
        ("p2panda-core/src/operation.rs", "Header::verify", r"pub fn verify\(&self\) -> bool"),
        ("p2panda-core/src/serde.rs", "Serialize for Header", r"impl<E> Serialize for Header<E>"),
        ("p2panda-core/src/serde.rs", "Deserialize for Header", r"impl<'de, E> Deserialize<'de> for Header<E>"),
        ("p2panda-core/src/prune.rs", "validate_prunable_backlink", r"pub fn validate_prunable_backlink"),
        ("p2panda-core/src/operation.rs", "validate_backlink", r"pub fn validate_backlink"),
        ("p2panda-core/src/timestamp.rs", "HybridTimestamp::increment", r"pub fn increment\(self\) -> Self \{", r"impl HybridTimestamp"),
        ("p2panda-stream/src/ingest/operation.rs", "ingest_operation", r"pub async fn ingest_operation"),
    ],
    harnesses=[
        dict(name="c02::roundtrip_shape_00", prop="C02", timeout=900, encodes="Serialize/Deserialize for Header<()>, Header::{to_bytes,verify}, TryFrom<&[u8]> for Header on the model codec",
             bounds="presence shape (no payload hash, no backlink), all field values"),
        dict(name="c02::roundtrip_shape_11", prop="C02", timeout=900, encodes="as roundtrip_shape_00", bounds="shape (payload hash, backlink)"),
        dict(name="c02::roundtrip_shape_01", prop="C02", tier="thorough", timeout=1800, encodes="as roundtrip_shape_00", bounds="shape (no payload hash, backlink)"),
        dict(name="c02::roundtrip_shape_10", prop="C02", tier="thorough", timeout=1800, encodes="as roundtrip_shape_00", bounds="shape (payload hash, no backlink)"),
        dict(name="c01::accepted_is_well_formed", prop="C01", timeout=180,
             encodes="validate_operation, validate_header (Header::verify = symbolic verdict), Body::hash/size",
             bounds="all field values and all 8 presence patterns symbolic; body absent or 0..4 symbolic bytes"),
        dict(name="c01::tamper_shape_00", prop="C01", timeout=240,
             encodes="validate_header, Header::verify, Header::to_bytes, Serialize for Header on the model codec, idealised signature oracle",
             bounds="presence shape (no payload hash, no backlink); all field values; 7 single-field mutations incl. any single signature byte"),
        dict(name="c01::tamper_shape_01", prop="C01", timeout=240, encodes="as tamper_shape_00", bounds="shape (no payload hash, backlink)"),
        dict(name="c01::tamper_shape_10", prop="C01", timeout=240, encodes="as tamper_shape_00", bounds="shape (payload hash, no backlink)"),
        dict(name="c01::tamper_shape_11", prop="C01", timeout=240, encodes="as tamper_shape_00", bounds="shape (payload hash, backlink)"),
        dict(name="c01::body_tamper_rejected", prop="C01", timeout=180,
             encodes="validate_operation body check", bounds="bodies of 1..4 bytes, one byte flipped / one byte shorter / one byte longer"),
        dict(name="c03::accepted_extends_chain", prop="C03", timeout=120,
             encodes="validate_prunable_backlink, validate_backlink (no prune flag)",
             bounds="arbitrary stored latest header (or none) with seq < u32::MAX, arbitrary incoming seq/author/backlink"),
        dict(name="c03::extending_operation_accepted", prop="C03", timeout=120,
             encodes="validate_prunable_backlink, validate_backlink (acceptance side)", bounds="as above, both prune flags"),
        dict(name="c03::accepted_is_above_stored_height", prop="C03", timeout=120,
             encodes="validate_prunable_backlink, validate_backlink", bounds="as above, no prune flag"),
        dict(name="c05::pruned_prefix_never_returns", prop="C05", timeout=120,
             encodes="validate_prunable_backlink (both prune flags) against the stored latest entry",
             bounds="arbitrary stored latest seq < u32::MAX, arbitrary incoming seq, backlink absent/pred-hash/other"),
        dict(name="c05::newer_prune_point_accepted", prop="C05", timeout=120,
             encodes="validate_prunable_backlink (prune flag set)", bounds="as above"),
        dict(name="ingest::ingest_accepts_only_extensions", prop="C03", timeout=300, native_search=True,
             encodes="ingest_operation (real async fn over a model store) -> validate_prunable_backlink -> validate_backlink",
             bounds="one ingest from an arbitrary stored head of one log (or an empty store); incoming operation: own/other author, own/other log, all u32 seq, backlink = head hash / other, both prune flags, known/unknown id, authentic/tampered"),
        dict(name="ingest::ingest_accepts_extensions", prop="C03", timeout=300, native_search=True,
             encodes="as ingest_accepts_only_extensions (acceptance side)", bounds="as above, unknown id, authentic"),
        dict(name="ingest::ingest_never_below_stored_height", prop="C05", timeout=300, native_search=True,
             encodes="ingest_operation -> validate_prunable_backlink, both prune flags, against the stored head of the operation's own log",
             bounds="as ingest_accepts_only_extensions, own author and log"),
        dict(name="ingest::ingest_validates_first_and_rejects_cleanly", prop="C01", timeout=300, native_search=True,
             encodes="ingest_operation: order of validate_operation / begin / insert / commit; rollback on rejection",
             bounds="as ingest_accepts_only_extensions; validate_operation's verdict = the harness' tampered flag"),
        dict(name="c18::increment_is_strict", prop="C18", tier="quick", timeout=60,
             encodes="HybridTimestamp::increment, LamportTimestamp::increment, Ord for HybridTimestamp",
             bounds="all u64 timestamp, lamport < u64::MAX, all u64 wall-clock readings"),
        dict(name="c18::two_increments", prop="C18", tier="quick", timeout=60,
             encodes="two chained HybridTimestamp::increment calls",
             bounds="all u64 values, two independent wall-clock readings (not assumed monotone)"),
    ],
)

PROPS["C18"] = dict(
    units=["core"],
    trusted_base=["Kani 0.68 / CBMC 6.11 / cadical", "stub: Timestamp::now returns an arbitrary u64 (wall clock is not assumed monotone)"],
    assumptions=["lamport part < u64::MAX (overflow of the logical clock is outside the claim)"],
    bounds="single increment and chains of two increments; all 64-bit values",
    outside="chains longer than two (each link is an instance of the one-step harness); p2panda-net's increment_timestamp wrapper only forwards to this function",
)

_CORE_TB = ["Kani 0.68 / CBMC 6.11 / cadical",
            "stub: Header::hash returns an arbitrary 32-byte constant (BLAKE3 of the stored predecessor is not bit-blasted)",
            "stub: constant_time_eq_32 (inline asm) replaced by a plain comparison loop",
            "stub: std::fmt::format returns an empty string (error messages are not the subject)",
            "model: two distinct authors = default key and default key with overwritten compressed bytes (no point decompression)"]
PROPS["C03"] = dict(
    units=["core"], trusted_base=_CORE_TB,
    assumptions=["stored latest seq < u32::MAX (past.seq_num + 1 overflows there: panic in debug, wrap in release)",
                 "ingest harnesses: the store is a model (one stored log with an arbitrary head; lookups by (author, log); insert is tentative until commit; store calls never fail or pend); "
                 "validate_operation is stubbed to the harness' tampered flag there (it is the subject of C01's own harnesses)"],
    bounds="one inductive step from an arbitrary stored latest entry; all u32 sequence numbers; 3 backlink shapes (none / hash of predecessor / any other hash); "
           "ingest harnesses: own/other author, own/other log, both prune flags, known/unknown id",
    outside="store failures and cancellation inside ingest_operation, SQLite itself (ORDER BY seq_num DESC, transaction isolation), equivocating authors",
    level_text=("Bounded model checking of the real validate_prunable_backlink/validate_backlink as ONE INDUCTIVE STEP from an arbitrary stored "
                "latest entry: accepted => exactly the next hash-linked entry; restart, gap, wrong author, wrong backlink are rejected; the "
                "correctly linked next operation is accepted. Covers every u32 seq pair instead of the in-order log the tests feed."),
    level_note="Trusted: Kani/CBMC; Header::hash stubbed to a symbolic constant (collision-freeness assumed); the real async ingest_operation runs over a model store; SQLite is outside the claim.",
)
PROPS["C01"] = dict(
    units=["core"],
    trusted_base=_CORE_TB + ["model codec stands for ciborium (injective, fixed-width, tagged encoding of the serde data model); p2panda's Serialize impl runs unchanged on it",
                             "idealised Ed25519 (EUF-CMA): verify accepts exactly the recorded (key, message bytes, signature) triple",
                             "Hash::digest stub: injective on bodies of <= 4 bytes"],
    assumptions=["E = () (no extensions) in these harnesses", "bodies <= 4 bytes"],
    bounds="all header field values; 8 presence patterns (well-formedness), 4 well-formed presence shapes x 7 single-field mutations (tamper); bodies <= 4 bytes",
    outside="StreamEvent reporting of the node stream (p2panda/src/streams/stream.rs: tokio + SQLite); store failures inside ingest_operation; Operation.hash == header.hash() is checked neither by the code nor demanded by the property",
    level_text=("Bounded model checking of the real validate_operation/validate_header/Header::verify with p2panda's own Serialize impl on a model codec and an "
                "idealised signature: accepted => signed, verified, version 1, payload/backlink info consistent, body matches; every single-field mutation of an honestly "
                "signed header (incl. any signature byte) and every 1-byte/length change of a body is rejected — for ALL field values, not the handful the tests sample."),
    level_note="Trusted: Kani/CBMC; ciborium replaced by an injective model codec; Ed25519 and BLAKE3 idealised; ingest_operation runs over a model store with validate_operation's verdict as a symbolic flag (validated first, rejected => nothing written).",
)
PROPS["C02"] = dict(
    units=["core"],
    trusted_base=_CORE_TB + ["model codec stands for ciborium on both the encode and the decode side (injective, fixed-width, tagged, length-prefixed)",
                             "stub: VerifyingKey::from_bytes accepts every 32-byte string (no point decompression)",
                             "spurious Kani check filtered by exact identity: memset on mem::zeroed::<()>() in Header::zero_sized_extensions"],
    assumptions=["E = () (no extensions)"],
    bounds="4 presence shapes x all field values incl. all 64 signature bytes (2 shapes quick, 4 thorough)",
    outside=("ciborium's byte-level CBOR itself; the Node API extensions (p2panda/src/operation.rs): harnesses over its Serialize/Deserialize impls (Basic round trip, Causal determinism with a model "
             "HashSet) did not finish within 15-30 min in Kani even with concrete values, cause not isolated -- by reading, serde emits CausalExtensions::previous (HashSet<Hash>) in iteration order, so equal "
             "causal values can encode to different bytes; 'still verifies' follows from the round trip being exact for all values (verification is a function of the value for E = ())"),
    level_text=("Bounded model checking of p2panda's own Serialize/Deserialize impls for Header<()> on a model codec: for every field value and presence shape decode(encode(h)) reproduces every field exactly, "
                "which also makes the encoding injective (equal bytes <=> equal headers), so hash and signature validity depend on the header value only. PARTIAL: Node extensions and byte-level CBOR are outside."),
    level_note="Trusted: Kani/CBMC; ciborium replaced by an injective model codec. PARTIAL claim (E = () only).",
)
PROPS["C05"] = dict(
    units=["core"], trusted_base=_CORE_TB,
    assumptions=["stored latest seq < u32::MAX", "heights never decrease (decided under C03), so after ingesting a prune point N the stored latest seq is >= N"],
    bounds="one step from an arbitrary stored latest entry; all u32 sequence numbers; both prune flags",
    outside="LogPrune's SQL DELETE, SQLite, store failures inside ingest_operation",
    level_text=("Bounded model checking of the real validate_prunable_backlink from an arbitrary stored latest entry: no operation, prune-flagged or not, "
                "is accepted at or below the stored height, so nothing below an ingested prune point is ever stored again; newer prune points are still accepted."),
    level_note="Trusted: Kani/CBMC; Header::hash stub; relies on C03's height monotonicity for the step from 'stored latest' to 'every ingested prune point'.",
)

# ------------------------------------------------------------------------------------------------
# unit "logs": style S2, logs.rs + cursor.rs mounted, BTreeMap -> model
# ------------------------------------------------------------------------------------------------
STRIP_TESTS = (r"\n#\[cfg\(test\)\]\nmod tests \{.*\Z", "\n", 1, "S")
# every `use std::collections::…;` line of the file under test is redirected to the contract models
# (one or more such lines, whatever they import: tolerant to harmless edits of the import list)
USE_MODELS = (r"^use std::collections::", "use crate::verif_models::", "+")
COLLECTIONS = ("shared", "models/collections.rs", "src/collections.rs")
_rows = [dict(name="c06::row_%02d" % i, prop="C06", tier="thorough", timeout=5400,
              encodes="logs::compare", bounds="local shape %d x all 16 remote shapes, 2 authors x 2 logs, all u32 heights" % i) for i in range(14)]
# rows 14 and 15 (local side with 3 of 4 / all 4 logs present in both author entries x 16 remote shapes) exist in the harness
# crate but are not registered: CBMC exhausts the 30 GB per-process cap on them when 8 rows run side by side (measured in
# the last thorough run); their local shapes are still decided against 5 remote shapes by the two_authors_full_vs_* harnesses
def _relax_vacuous(unit, names, labels):
    """harnesses whose local side is empty can never need a range: that branch is legitimately unreachable there"""
    for h in unit["harnesses"]:
        if h["name"] in names:
            h["may_be_unreachable"] = labels
            h["witnesses"] = []


UNITS["logs"] = dict(
    name="logs",
    stage=[("repo",), ("crate", "harness/logs"), ("lock",), SYM, COLLECTIONS,
           ("mount", "p2panda-core/src/logs.rs", "src/staged/logs.rs",
            [USE_MODELS, STRIP_TESTS]),
           ("mount", "p2panda-core/src/cursor.rs", "src/staged/cursor.rs", [STRIP_TESTS])],
    repo_paths=["src/staged/"],
    functions=[
        ("p2panda-core/src/logs.rs", "logs::compare", r"pub fn compare<A, L>"),
        ("p2panda-core/src/cursor.rs", "Cursor::compare", r"pub fn compare\(&self"),
        ("p2panda-core/src/cursor.rs", "Cursor::advance", r"pub fn advance\(&mut self"),
        ("p2panda-core/src/cursor.rs", "Cursor::log_height", r"pub fn log_height\(&self"),
    ],
    harnesses=[
    ] + [dict(name="c06::one_author_local_%s" % n, prop="C06", timeout=300, encodes="logs::compare",
              bounds="1 author x 2 logs: local shape '%s' x all 5 remote shapes (author absent / present-empty / each subset of logs), all u32 heights" % n)
         for n in ("absent", "empty_entry", "log0", "log1", "both")] + [
        dict(name="c06::two_authors_full_vs_full", prop="C06", timeout=300, encodes="logs::compare", bounds="2x2 logs all present on both sides"),
        dict(name="c06::two_authors_full_vs_partial", prop="C06", timeout=300, encodes="logs::compare", bounds="remote lacks one log per author"),
        dict(name="c06::two_authors_partial_vs_full", prop="C06", timeout=300, encodes="logs::compare", bounds="local lacks logs the remote has"),
        dict(name="c06::two_authors_full_vs_missing_author", prop="C06", timeout=300, encodes="logs::compare", bounds="remote lacks an author"),
        dict(name="c06::two_authors_full_vs_empty_author_entry", prop="C06", timeout=300, encodes="logs::compare", bounds="remote has an author entry with an empty log map"),
        dict(name="c06::two_authors_disjoint", prop="C06", timeout=300, encodes="logs::compare", bounds="disjoint log sets"),
        dict(name="c06::cursor_compare_full_vs_partial", prop="C06", timeout=300, encodes="Cursor::compare -> logs::compare", bounds="cursor holds the remote side"),
    ] + _rows + [
        dict(name="c07::advance_is_pointwise_max", prop="C07", timeout=300, encodes="Cursor::advance, Cursor::log_height",
             bounds="8 concrete (shape, target) cases over 2 authors x 2 logs, all u32 heights"),
        dict(name="c07::advances_commute", prop="C07", timeout=300, encodes="Cursor::advance x2 in both orders, Cursor::state",
             bounds="5 concrete (shape, targets) cases, all u32 heights"),
    ],
)
_relax_vacuous(UNITS["logs"], ["c06::one_author_local_absent", "c06::one_author_local_empty_entry", "c06::row_00"], ["C06.missing"])
_LOGS_TB = ["Kani 0.68 / CBMC 6.11 / cadical",
            "model: std BTreeMap replaced by a sorted inline array of capacity 2 implementing unique keys + ascending iteration (std's own implementation is out of CBMC's reach: 2 inserts -> 37 GB)"]
PROPS["C06"] = dict(
    units=["logs"], trusted_base=_LOGS_TB,
    assumptions=["maps of at most 2 authors x 2 logs (2 model slots per map)", "shapes (which keys exist) enumerated concretely, heights symbolic"],
    bounds="quick: 1 author x 2 logs all 25 shape pairs + 7 two-author shape pairs; thorough: 14 of the 16 local log-presence shapes x all 16 remote shapes for 2 authors x 2 logs (224 shape pairs); all u32 heights",
    outside="std's BTreeMap implementation itself; maps beyond 2x2; 'random large maps' (sampling) is not done; local shapes 14 and 15 (both authors present, 3 or 4 of the 4 logs) against all 16 remote shapes: CBMC runs out of memory (30 GB cap), they are only decided against the remote shapes of the two_authors_full_vs_* harnesses",
    level_text=("Bounded model checking of the real logs::compare / Cursor::compare over a contract model of BTreeMap: for every enumerated pair of map shapes and ALL "
                "u32 heights the diff is exactly {(remote height or start, local height] for logs the remote lacks or is behind on}, nothing else, and merging it yields the pointwise maximum."),
    level_note="Trusted: Kani/CBMC; BTreeMap contract model (sorted unique keys); bound 2 authors x 2 logs.",
)
PROPS["C07"] = dict(
    units=["logs"], trusted_base=_LOGS_TB,
    assumptions=["2 authors x 2 logs", "Acked::ack (topic check, semaphore, SQLite upsert) is not encoded"],
    bounds="one advance from an arbitrary state of 8 concrete shapes; two advances in both orders for 5 cases; all u32 heights",
    outside="the ack half of the statement: Acked::ack's topic check and the persisted cursor in SQLite (FFI) cannot be put in front of CBMC",
    level_text=("Bounded model checking of the real Cursor::advance/log_height/state: post-state = pointwise max(pre, advance), other logs untouched, never backwards, "
                "order of two advances irrelevant — for ALL u32 heights. PARTIAL: the ack/topic/persistence clause is outside the solver's reach."),
    level_note="Trusted: Kani/CBMC; BTreeMap contract model. Partial claim: only the cursor algebra, not Acked::ack + SQLite.",
)

# ------------------------------------------------------------------------------------------------
# unit "dedup": S2 mount of p2panda-sync/src/dedup.rs
# ------------------------------------------------------------------------------------------------
UNITS["dedup"] = dict(
    name="dedup",
    stage=[("repo",), ("crate", "harness/dedup"), ("lock",), SYM, COLLECTIONS,
           ("mount", "p2panda-sync/src/dedup.rs", "src/staged/dedup.rs",
            [USE_MODELS, STRIP_TESTS])],
    repo_paths=["src/staged/"],
    functions=[("p2panda-sync/src/dedup.rs", "DeduplicationBuffer::new", r"pub fn new\(capacity: usize\)"),
               ("p2panda-sync/src/dedup.rs", "DeduplicationBuffer::insert", r"pub fn insert\(&mut self, item: T\)"),
               ("p2panda-sync/src/dedup.rs", "DeduplicationBuffer::contains", r"pub fn contains\(&self, item: &T\)")],
    harnesses=[dict(name="cap%d_len%d" % (c, n), prop="C24", tier=t, timeout=600,
                    encodes="DeduplicationBuffer::{new,insert,contains}",
                    bounds="capacity %d, every sequence of %d inserts over a 4-letter alphabet (4^%d sequences, decided symbolically)" % (c, n, n))
               for (c, n, t) in [(1, 5, "quick"), (2, 5, "quick"), (3, 5, "quick"), (2, 7, "thorough"), (3, 7, "thorough"), (4, 7, "thorough")]],
)
PROPS["C24"] = dict(
    units=["dedup"],
    trusted_base=["Kani 0.68 / CBMC 6.11 / cadical",
                  "model: std VecDeque/HashSet replaced by inline-array contract models; VecDeque::with_capacity(c).capacity() == c exactly (std guarantees >=; exact on the pinned toolchain, confirmed by the native replay path)"],
    assumptions=["alphabet of 4 letters, sequences of <= 5 (quick) / 7 (thorough) inserts, capacities 1..4"],
    bounds="capacities 1-3 x all 4^5 sequences (quick); capacities 2-4 x all 4^7 sequences (thorough)",
    outside="'random long' sequences; capacities beyond 4; std's real capacity rounding for other toolchains",
    level_text=("Bounded model checking of the real DeduplicationBuffer against a shift-register reference: for every insert sequence inside the bound, insert()/contains() "
                "report a duplicate exactly for the last `capacity` distinct accepted items and the buffer never holds more than `capacity`."),
    level_note="Trusted: Kani/CBMC; VecDeque/HashSet contract models (capacity() exact).",
)

# ------------------------------------------------------------------------------------------------
# unit "backoff": S2 include! of p2panda-net/src/discovery/backoff.rs
# ------------------------------------------------------------------------------------------------
INNER_DOCS = (r"^//!", "//", "*")
UNITS["backoff"] = dict(
    name="backoff",
    stage=[("repo",), ("crate", "harness/backoff"), ("lock",), SYM,
           ("mount", "p2panda-net/src/discovery/backoff.rs", "src/staged/backoff.rs", [INNER_DOCS, STRIP_TESTS])],
    repo_paths=["src/staged/"],
    functions=[("p2panda-net/src/discovery/backoff.rs", "Backoff::new", r"pub fn new\(config: Config"),
               ("p2panda-net/src/discovery/backoff.rs", "Backoff::increment", r"pub fn increment\(&mut self\)"),
               ("p2panda-net/src/discovery/backoff.rs", "Backoff::reset", r"pub fn reset\(&mut self\)")],
    harnesses=[
        dict(name="unit::proofs::step_default_config", prop="C28", timeout=300, encodes="Backoff::increment (+reset) with Config::default()",
             bounds="one step from an arbitrary in-bounds state: value in [initial,max] (ms), arbitrary elapsed time < 2^40 ms, arbitrary draws inside the configured ranges"),
        dict(name="unit::proofs::step_any_config", prop="C28", timeout=300, encodes="Backoff::increment (+reset), symbolic Config",
             bounds="as above for every config with initial <= max, min_inc < max_inc, min_reset < max_reset (all < 2^32 ms)"),
        dict(name="unit::proofs::new_and_reset_start_at_initial", prop="C28", timeout=300, encodes="Backoff::new, Backoff::reset", bounds="symbolic Config"),
    ],
)
PROPS["C28"] = dict(
    units=["backoff"],
    trusted_base=["Kani 0.68 / CBMC 6.11 / cadical",
                  "stubs: Instant::now/elapsed (arbitrary elapsed time), Backoff::random_increment/random_reset_after (arbitrary value inside [lo,hi), the contract of random_range)"],
    assumptions=["durations with millisecond granularity (seconds < 2^32); symbolic configs in whole seconds < 2^16",
                 "representation invariant assumed for the pre-state: initial <= value <= max (re-established by every step, which is what is checked)"],
    bounds="one inductive step from an arbitrary in-bounds state, default and symbolic configs",
    outside="ChaCha20 itself; tokio::time::sleep",
    level_text=("Bounded model checking of the real Backoff::increment/reset/new as one inductive step from an arbitrary in-bounds state with symbolic elapsed time and RNG draws: "
                "the delay stays within [initial, max], returns to initial once the reset interval elapsed, and grows otherwise — for every config, not one seed."),
    level_note="Trusted: Kani/CBMC; clock and RNG replaced by arbitrary values within their documented ranges.",
)

# ------------------------------------------------------------------------------------------------
# unit "auth": S2 mount of p2panda-auth state.rs + access.rs
# ------------------------------------------------------------------------------------------------
UNITS["auth"] = dict(
    name="auth",
    stage=[("repo",), ("crate", "harness/auth"), ("lock",), SYM, COLLECTIONS,
           ("mount", "p2panda-auth/src/group/crdt/state.rs", "src/staged/state.rs",
            [USE_MODELS, INNER_DOCS, STRIP_TESTS]),
           ("mount", "p2panda-auth/src/access.rs", "src/staged/access.rs", [INNER_DOCS, STRIP_TESTS])],
    repo_paths=["src/staged/"],
    functions=[("p2panda-auth/src/group/crdt/state.rs", "state::merge", r"pub fn merge<"),
               ("p2panda-auth/src/access.rs", "PartialOrd for Access", r"impl<C: PartialOrd> PartialOrd for Access<C>"),
               ("p2panda-auth/src/group/crdt/state.rs", "state::create", r"pub fn create<"),
               ("p2panda-auth/src/group/crdt/state.rs", "state::add", r"pub fn add<"),
               ("p2panda-auth/src/group/crdt/state.rs", "state::remove", r"pub fn remove<"),
               ("p2panda-auth/src/group/crdt/state.rs", "state::modify", r"^fn modify<"),
               ("p2panda-auth/src/group/crdt/state.rs", "state::promote", r"pub fn promote<"),
               ("p2panda-auth/src/group/crdt/state.rs", "state::demote", r"pub fn demote<")],
    harnesses=[
        dict(name="c32::commutative_without_conditions", prop="C32", timeout=600, encodes="state::merge, PartialOrd for Access (C = ())",
             bounds="two states over 2 member ids, member_counter 1..3, access_counter 0..2, 4 levels, every HashMap iteration order"),
        dict(name="c32::idempotent_without_conditions", prop="C32", timeout=600, encodes="state::merge", bounds="one state over 2 ids, as above"),
        dict(name="c32::associative_without_conditions", prop="C32", timeout=600, encodes="state::merge", bounds="three states over 1 member id (members are merged independently)"),
        dict(name="c32::commutative_with_conditions", prop="C32", timeout=600, encodes="state::merge, PartialOrd for Access (C = u8 in {0,1}, optional)",
             bounds="two states over 2 ids, conditions None | Some(0) | Some(1)"),
        dict(name="c32::commutative_with_conditions_consistent_order", prop="C32", timeout=600, encodes="state::merge, PartialOrd for Access",
             bounds="as above, restricted to pairs on which Access's order is antisymmetric and total"),
        dict(name="c32::idempotent_with_conditions", prop="C32", timeout=600, encodes="state::merge", bounds="one state over 2 ids with conditions"),
        dict(name="c32::associative_with_conditions", prop="C32", timeout=900, encodes="state::merge", bounds="three states over 1 id with conditions"),
        dict(name="c33::add_step", prop="C33", timeout=600, encodes="state::add", bounds="arbitrary state over 3 ids (counters 1..3 / 0..2, 4 levels), arbitrary actor/target/access"),
        dict(name="c33::remove_step", prop="C33", timeout=600, encodes="state::remove", bounds="as add_step"),
        dict(name="c33::promote_step", prop="C33", timeout=600, encodes="state::promote, state::modify", bounds="as add_step"),
        dict(name="c33::demote_step", prop="C33", timeout=600, encodes="state::demote, state::modify", bounds="as add_step"),
        dict(name="c33::any_operation_with_conditions_needs_an_active_manager", prop="C33", timeout=600, encodes="state::{add,remove,promote,demote,modify} with C = u8 conditions",
             bounds="arbitrary conditioned state over 3 ids, symbolic operation kind/actor/target/access"),
        dict(name="c33::create_introduces_exactly_initial_members", prop="C33", timeout=300, encodes="state::create", bounds="1 or 2 initial members, all access levels"),
    ],
)
_AUTH_TB = ["Kani 0.68 / CBMC 6.11 / cadical",
            "model: std HashMap/HashSet replaced by inline arrays (capacity 3) with unique keys and a solver-chosen iteration order per iteration (std documents the order as arbitrary)"]
PROPS["C32"] = dict(
    units=["auth"], trusted_base=_AUTH_TB,
    assumptions=["<= 2 member ids per state (1 for associativity: the merge loop treats members independently)", "member_counter in 1..3, access_counter in 0..2", "conditions type u8 restricted to {0,1} (totally ordered) or the unit type"],
    bounds="all states inside the stated domains, both instantiations (with / without access conditions), every map iteration order",
    outside="more than two members per state; condition types that are only partially ordered",
    level_text=("Bounded model checking of the real state::merge and Access's PartialOrd: commutativity, associativity and idempotence are decided for every pair/triple of member states "
                "inside small counter/level/condition domains — the exhaustive small-domain quantifier of the property, including condition combinations the three unit-test examples never touch."),
    level_note="Trusted: Kani/CBMC; HashMap contract model with symbolic iteration order; small-domain bound.",
)
PROPS["C33"] = dict(
    units=["auth"], trusted_base=_AUTH_TB,
    assumptions=["states over 3 member ids, no access conditions (C = ())", "the state the functions receive is the state at the operation's declared dependencies (rebuilt by GroupCrdt::validate with petgraph — not encoded)"],
    bounds="one operation (add/remove/promote/demote/create) from an arbitrary state; arbitrary actor, target and access",
    outside="GroupCrdt::validate/process (graph rebuild at the dependencies, resolver, 'rejected operations leave the replica unchanged' at replica level): petgraph + HashMap-heavy, out of CBMC's reach",
    level_text=("Bounded model checking of the real state::{add,remove,promote,demote,create} — the functions GroupCrdt::validate uses to accept or reject an operation: accepted => author is an active "
                "manager (or removes itself), the action is valid, only the target's entry changes, nobody becomes a member except through add/create. PARTIAL: the replica-level graph logic is outside."),
    level_note="Trusted: Kani/CBMC; HashMap contract model. Partial claim: state-transition functions only.",
)

# ------------------------------------------------------------------------------------------------
# unit "enc": style S1 — scratch copy of the workspace, harness modules appended to the files under
# test inside the real p2panda-encryption crate (private items visible, no source hooks)
# ------------------------------------------------------------------------------------------------
_ENC = "p2panda-encryption/src/"
UNITS["enc"] = dict(
    name="enc",
    package="p2panda-encryption",
    features=["test_utils", "model_serde"],
    native_features=["test_utils", "model_serde"],
    native_fakeclock=True,
    stage=[("repo",),
           ("shared_repo", "models/sym.rs", _ENC + "sym.rs"),
           ("shared_repo", "models/collections.rs", _ENC + "verif_models.rs"),
           ("rewrite", "p2panda-encryption/Cargo.toml", [(r"^\[features\]$", "[features]\nmodel_serde = []", 1)]),
           ("append", _ENC + "lib.rs", "harness/inject/enc_lib.rs"),
           ("rewrite", _ENC + "crypto/secret.rs", [(r", ZeroizeOnDrop\)\]", ")]", 1), (r"^use zeroize::ZeroizeOnDrop;$", "", 1)]),
           ("rewrite", _ENC + "message_scheme/ratchet.rs", [USE_MODELS]),
           ("append", _ENC + "message_scheme/ratchet.rs", "harness/inject/enc_ratchet.rs"),
           ("rewrite", _ENC + "data_scheme/group_secret.rs", [USE_MODELS]),
           ("append", _ENC + "data_scheme/group_secret.rs", "harness/inject/enc_group_secret.rs"),
           ("rewrite", _ENC + "key_registry.rs", [USE_MODELS]),
           ("append", _ENC + "key_registry.rs", "harness/inject/enc_key_registry.rs"),
           ],
    repo_paths=["p2panda-encryption/src/", "src/"],
    functions=[
        (_ENC + "message_scheme/ratchet.rs", "DecryptionRatchet::secret_for_decryption", r"pub fn secret_for_decryption"),
        (_ENC + "message_scheme/ratchet.rs", "RatchetSecret::ratchet_forward", r"pub fn ratchet_forward"),
        (_ENC + "data_scheme/group_secret.rs", "find_latest", r"^fn find_latest"),
        (_ENC + "data_scheme/group_secret.rs", "SecretBundle::generate", r"pub fn generate\("),
        (_ENC + "data_scheme/group_secret.rs", "SecretBundle::insert", r"pub fn insert\("),
        (_ENC + "data_scheme/group_secret.rs", "SecretBundle::extend", r"pub fn extend\("),
        (_ENC + "data_scheme/group_secret.rs", "SecretBundle::remove", r"pub fn remove\("),
        (_ENC + "data_scheme/group_secret.rs", "SecretBundle::from_secrets", r"pub fn from_secrets"),
        (_ENC + "key_registry.rs", "KeyRegistry::add_onetime_bundle", r"pub fn add_onetime_bundle"),
        (_ENC + "key_registry.rs", "KeyRegistry::add_longterm_bundle", r"pub fn add_longterm_bundle"),
        (_ENC + "key_registry.rs", "KeyRegistry::remove_expired", r"pub fn remove_expired"),
        (_ENC + "key_registry.rs", "PreKeyRegistry<OneTimeKeyBundle>::key_bundle", r"fn key_bundle\("),
        (_ENC + "key_bundle/key_bundle.rs", "latest_key_bundle", r"pub fn latest_key_bundle"),
        (_ENC + "key_bundle/key_bundle.rs", "OneTimeKeyBundle::verify", r"fn verify\(&self\)"),
        (_ENC + "key_bundle/lifetime.rs", "Lifetime::verify", r"pub fn verify\(&self\)"),
    ],
    harnesses=[
        dict(name="message_scheme::ratchet::verif_proofs::one_step_from_any_valid_state", prop="C34", timeout=1500, native_search=True,
             encodes="DecryptionRatchet::secret_for_decryption, RatchetSecret::ratchet_forward (sender oracle)",
             bounds="ONE inductive step from any ratchet state satisfying the representation invariant: head 0..4, <= 3 kept entries each used/unused, ooo_tolerance 0..=3, max_forward 0..=3 (ooo + max_forward <= 5), any request up to head+max_forward+1"),
        dict(name="message_scheme::ratchet::verif_proofs::two_requests_windows_le2", prop="C34", tier="thorough", timeout=2400,
             encodes="DecryptionRatchet::secret_for_decryption, RatchetSecret::ratchet_forward (sender oracle)",
             bounds="2 requests over generations 0..3, ooo_tolerance in 0..=2, max_forward in 0..=3, all orders/losses/duplicates"),
        dict(name="message_scheme::ratchet::verif_proofs::three_requests_windows_le2", prop="C34", tier="thorough", timeout=3000,
             encodes="as above", bounds="3 requests over generations 0..3, windows 0..=2"),
        dict(name="message_scheme::ratchet::verif_proofs::window_arithmetic_any_head", prop="C34", timeout=600,
             encodes="secret_for_decryption window arithmetic", bounds="one request from an arbitrary head generation (< u32::MAX-8), arbitrary u32 windows, forward jump <= 3"),
        dict(name="message_scheme::ratchet::verif_proofs::three_requests_windows_le3", prop="C34", tier="thorough", timeout=2400,
             encodes="as above", bounds="3 requests, windows 0..=3", supersedes=[]),
        dict(name="message_scheme::ratchet::verif_proofs::four_requests_windows_le3", prop="C34", tier="thorough", timeout=3600,
             encodes="as above", bounds="4 requests, windows 0..=3"),
        dict(name="data_scheme::group_secret::verif_proofs::latest_is_max_for_every_insertion_order", prop="C36", timeout=900,
             encodes="find_latest via SecretBundle::insert, SecretBundleState::latest", bounds="1..3 secrets, all u64 timestamps, distinct ids, all 6 insertion orders, every HashMap iteration order"),
        dict(name="data_scheme::group_secret::verif_proofs::latest_after_merge_from_secrets_and_remove", prop="C36", tier="thorough", timeout=1800,
             encodes="SecretBundle::{extend, from_secrets, remove}, find_latest", bounds="3 secrets, all u64 timestamps, both merge orders"),
        dict(name="data_scheme::group_secret::verif_proofs::latest_after_merging_two_bundles", prop="C36", timeout=900,
             encodes="SecretBundle::extend, find_latest", bounds="two single-secret bundles, all u64 timestamps, both merge orders"),
        dict(name="data_scheme::group_secret::verif_proofs::generate_is_newer", prop="C36", timeout=900,
             encodes="SecretBundle::generate", bounds="bundle of 0..2 secrets with timestamps < u64::MAX, every wall-clock second"),
        dict(name="data_scheme::group_secret::verif_proofs::generate_with_maximal_latest_timestamp", prop="C36", timeout=600,
             encodes="SecretBundle::generate", bounds="latest timestamp = u64::MAX, every wall-clock second"),
        dict(name="key_registry::verif_proofs::onetime_accept_and_lookup", prop="C38", timeout=600,
             encodes="KeyRegistry::add_onetime_bundle, PreKeyRegistry<OneTimeKeyBundle>::key_bundle, OneTimeKeyBundle::verify, Lifetime::verify",
             bounds="1 bundle with arbitrary u64 lifetime and signature verdict, two independent clock readings"),
        dict(name="key_registry::verif_proofs::onetime_two_bundles_lookup", prop="C38", timeout=600,
             encodes="as above", bounds="2 accepted bundles, lookup at a later arbitrary time"),
        dict(name="key_registry::verif_proofs::longterm_accept", prop="C38", timeout=600,
             encodes="KeyRegistry::add_longterm_bundle, LongTermKeyBundle::verify, Lifetime::verify", bounds="1 bundle, arbitrary lifetime/verdict/clock"),
        dict(name="key_registry::verif_proofs::longterm_lookup", prop="C38", timeout=900,
             encodes="PreKeyRegistry<LongTermKeyBundle>::key_bundle, latest_key_bundle, Lifetime::verify, Ord for Lifetime", bounds="2 accepted bundles, lookup at a later arbitrary time"),
        dict(name="key_registry::verif_proofs::remove_expired_keeps_only_valid", prop="C38", tier="thorough", timeout=2400,
             encodes="KeyRegistry::remove_expired", bounds="1 bundle, two clock readings (1.8M symex steps, ~18 GB)"),
    ],
)

import copy as _copy
UNITS["encs"] = _copy.deepcopy(UNITS["enc"])
UNITS["encs"]["name"] = "encs"
UNITS["encs"]["stage"] = UNITS["encs"]["stage"] + [
    ("rewrite", _ENC + "lib.rs", [(r"pub const MODEL_CAP: usize = 6;", "pub const MODEL_CAP: usize = 4;", 1)]),
    # digest width: ids are opaque, totally ordered values for C36; 2 bytes under the solver keep every
    # array comparison short (natively the real 32-byte SHA-256)
    ("rewrite", _ENC + "crypto/sha2.rs", [(r"^pub const SHA256_DIGEST_SIZE: usize = 32;$",
                                           "#[cfg(kani)] pub const SHA256_DIGEST_SIZE: usize = 2; #[cfg(not(kani))] pub const SHA256_DIGEST_SIZE: usize = 32;", 1)]),
]
UNITS["encs"]["harnesses"] = [h for h in UNITS["enc"]["harnesses"] if h["prop"] in ("C36", "C38")]
UNITS["encs"]["mem_gb"] = 30
UNITS["enc"]["harnesses"] = [h for h in UNITS["enc"]["harnesses"] if h["prop"] == "C34"]
_ENC_TB = ["Kani 0.68 / CBMC 6.11 / cadical",
           "staging: scratch copy of the workspace; ZeroizeOnDrop dropped from Secret (inline asm + a 32-iteration loop per drop; zeroisation is not part of any property)",
           "model: std VecDeque/HashMap replaced by inline-array contract models (HashMap with solver-chosen iteration order)"]
PROPS["C34"] = dict(
    units=["enc"],
    trusted_base=_ENC_TB + ["stub: HKDF-SHA256 replaced by a labelled injective step function on a chain position (determinism and injectivity in (label, position) are the two facts the ratchet needs); natively the real HKDF"],
    assumptions=["generations 0..3, windows 0..=2 (quick) / 0..=3 (thorough), sequences of 2-3 (quick) / 3-4 (thorough) requests", "a failing request consumes the state (API moves it): the sequence ends at the first rejection", "head generation < u32::MAX - 8 in the one-step harness"],
    bounds="all request sequences inside the stated bound (every order, loss, duplication), symbolic window sizes",
    outside="HKDF/SHA-256 themselves; 'random large' sequences; generation counter overflow at 2^32",
    level_text=("Bounded model checking of the real DecryptionRatchet::secret_for_decryption against the real sender ratchet: for every request sequence inside the bound the key material "
                "is exactly the sender's for that generation, no generation is served twice, requests outside the windows are rejected and unused ones inside are served."),
    level_note="Trusted: Kani/CBMC; HKDF idealised as injective+deterministic; VecDeque contract model.",
)
PROPS["C36"] = dict(
    units=["encs"],
    trusted_base=_ENC_TB + ["stub: GroupSecret::id (SHA-256) replaced by the identity on the secret bytes (injective); ids are non-zero (an all-zero SHA-256 digest is infeasible)",
                            "stub: GroupSecret::from_rng returns fresh bytes with an arbitrary wall-clock second (natively: real RNG + preloaded clock)"],
    assumptions=["<= 3 secrets", "distinct secrets have distinct ids"],
    bounds="all u64 timestamps, all insertion / merge orders of 3 secrets, every HashMap iteration order, every wall-clock second",
    outside="bundles of more than 3 secrets; CBOR encoding of bundles",
    level_text=("Bounded model checking of the real find_latest / SecretBundle::{insert,extend,remove,from_secrets,generate}: latest is the maximum by (timestamp, id) under every map iteration "
                "and insertion order, and a generated secret is strictly later than the current latest for every clock reading (incl. a clock behind the latest)."),
    level_note="Trusted: Kani/CBMC; HashMap contract model with symbolic iteration order; SHA-256 idealised as injective.",
)
PROPS["C38"] = dict(
    units=["encs"],
    trusted_base=_ENC_TB + ["stub: SystemTime::now / duration_since(UNIX_EPOCH) return an arbitrary second, chosen independently at add time and at lookup time (the clock may also step backwards)",
                            "stub: xeddsa_verify returns a symbolic verdict per bundle (natively bundles are really signed or carry a garbage signature)"],
    assumptions=["<= 2 bundles per member", "clock < 2^62 s"],
    bounds="arbitrary u64 lifetimes, arbitrary signature verdicts, two clock readings",
    outside="XEdDSA itself; more than two bundles per member",
    level_text=("Bounded model checking of the real KeyRegistry add/lookup/remove_expired paths with the wall clock as a symbolic variable read independently at add and at lookup time: a bundle is accepted "
                "exactly when lifetime and signature are valid now, and a bundle returned for a member is valid when it is returned."),
    level_note="Trusted: Kani/CBMC; clock and signature verdict symbolic; HashMap contract model.",
)

# ------------------------------------------------------------------------------------------------
# unit "tasks": S2 include! of p2panda/src/processor/tasks.rs over the tokio contract model
# ------------------------------------------------------------------------------------------------
UNITS["tasks"] = dict(
    name="tasks",
    stage=[("repo",), ("crate", "harness/tasks"), ("lock_none",), SYM, COLLECTIONS,
           ("mount", "p2panda/src/processor/tasks.rs", "src/staged/tasks.rs",
            [USE_MODELS, INNER_DOCS, STRIP_TESTS])],
    repo_paths=["src/staged/"],
    native_note="unit replay: the same staged unit and the tokio contract model compiled natively and run with the solver's schedule",
    mem_gb=30,
    functions=[("p2panda/src/processor/tasks.rs", "Task::ready", r"pub async fn ready\(&self\)"),
               ("p2panda/src/processor/tasks.rs", "Task::mark_as_done", r"^    async fn mark_as_done\(&self, result: T\)"),
               ("p2panda/src/processor/tasks.rs", "TaskTracker::track", r"pub async fn track\(&self"),
               ("p2panda/src/processor/tasks.rs", "TaskTracker::mark_as_done", r"pub async fn mark_as_done\(&self, id: ID")],
    harnesses=[
        dict(name="unit::proofs::ready_never_misses_done", prop="C14", timeout=300, encodes="Task::ready vs Task::mark_as_done",
             bounds="pipeline thread runs mark_as_done to completion at any of the submitter's synchronisation operations (lock poll, guard drop, notified() creation, Notified poll) or afterwards"),
        dict(name="unit::proofs::two_waiters_both_return", prop="C14", timeout=300, encodes="two Task::ready futures vs Task::mark_as_done", bounds="as above, two submitters stepped alternately"),
        dict(name="unit::proofs::tracked_submission_completes", prop="C14", tier="thorough", timeout=1500, encodes="TaskTracker::track, Task::ready vs TaskTracker::mark_as_done", bounds="as above, through the tracker"),
        dict(name="unit::proofs::waiter_polled_inside_mark_as_done", prop="C14", timeout=600, encodes="Task::mark_as_done with Task::ready polled inside it",
             bounds="roles swapped: the submitter's ready() is polled once at any synchronisation operation of mark_as_done (lock poll, guard drop, notify_waiters) — with or without a poll before"),
        dict(name="unit::proofs::concurrent_track_of_same_operation", prop="C14", timeout=900, encodes="TaskTracker::track x2 interleaved, TaskTracker::mark_as_done, Task::ready",
             bounds="submitter B's whole track(id) runs at any synchronisation operation of submitter A's track(id) (or afterwards); one mark_as_done"),
        dict(name="unit::proofs::resubmission_after_completion_completes", prop="C14", timeout=300, encodes="TaskTracker::{track, mark_as_done}, Task::ready", bounds="submit, duplicate submit, completion, re-submit, completion (sequential)"),
    ],
)
PROPS["C14"] = dict(
    units=["tasks"],
    trusted_base=["Kani 0.68 / CBMC 6.11 / cadical",
                  "model: tokio::sync::{Mutex,RwLock,Notify} replaced by a contract model (Notified sees every notify_waiters() issued after its creation; mutual exclusion); every operation on a primitive is a context-switch point",
                  "model: std HashMap -> inline-array contract model"],
    assumptions=["the pipeline thread marks an operation as done only after it received it, i.e. after the submitter's track() completed (the order in Pipeline::process)",
                 "switches happen at synchronisation operations only (complete for data that is only touched under these primitives)"],
    bounds="two threads (one or two submitters, one pipeline thread); the pipeline thread's mark_as_done runs atomically at a solver-chosen switch point",
    outside="real tokio internals; the mpsc channel and the pipeline's processor layers between track() and mark_as_done()",
    level_text=("Bounded model checking of the real Task::ready / Task::mark_as_done / TaskTracker code over a contract model of tokio's primitives with the pipeline thread scheduled at EVERY "
                "synchronisation point of the submitter — the quantifier over interleavings that the suite's 50 ms sleep never varies: the submission returns, with its own result, for one and two submitters."),
    level_note="Trusted: Kani/CBMC; tokio contract model (sequentialised schedules at synchronisation operations).",
)

# ------------------------------------------------------------------------------------------------
# unit "eph": S2 include! of p2panda/src/streams/ephemeral_stream.rs
# ------------------------------------------------------------------------------------------------
_EPH = "p2panda/src/streams/ephemeral_stream.rs"
UNITS["eph"] = dict(
    name="eph",
    stage=[("repo",), ("crate", "harness/eph"), ("lock",), SYM, ("shared", "models/mcodec.rs", "src/mcodec.rs"),
           ("mount", _EPH, "src/staged/ephemeral_stream.rs",
            [(r"^use std::sync::\{Arc, Mutex\};$", "use std::sync::Arc; use crate::verif_sync::Mutex;", 1), INNER_DOCS, STRIP_TESTS])],
    repo_paths=["src/staged/", "/repo/"],
    native_features=["replay"],
    mem_gb=30,
    functions=[(_EPH, "EphemeralStreamSubscription::poll_next", r"fn poll_next\(mut self: Pin<&mut Self>"),
               (_EPH, "WrappedMessage::new", r"pub fn new\("),
               (_EPH, "WrappedMessage::verify", r"pub fn verify\(&self\)"),
               (_EPH, "WrappedMessage::sign", r"^    fn sign\("),
               (_EPH, "WrappedMessage::to_bytes", r"pub fn to_bytes\(&self\)"),
               (_EPH, "EphemeralStreamPublisher::publish", r"pub async fn publish\(&self, message: M\)"),
               ("p2panda-core/src/timestamp.rs", "HybridTimestamp::increment", r"pub fn increment\(self\) -> Self \{", r"impl HybridTimestamp")],
    harnesses=[
        dict(name="unit::proofs::valid_first", prop="C17", timeout=900, encodes="EphemeralStreamSubscription::poll_next", bounds="script: one valid message"),
        dict(name="unit::proofs::one_junk_then_valid", prop="C17", timeout=900, encodes="EphemeralStreamSubscription::poll_next", bounds="script: 1 item, each invalid or lagged (symbolic), then a valid message; wake-driven executor, <= 3 polls"),
        dict(name="unit::proofs::two_junk_then_valid", prop="C17", tier="thorough", timeout=900, encodes="as above", bounds="2 junk items then a valid message"),
        dict(name="unit::proofs::three_junk_then_valid", prop="C17", tier="thorough", timeout=1200, encodes="as above", bounds="3 junk items then a valid message"),
        dict(name="unit::proofs::junk_then_closed_ends", prop="C17", timeout=900, encodes="as above", bounds="1 junk item, then the underlying stream is closed"),
        dict(name="unit::c16::tampered_message_is_rejected", prop="C16", timeout=600, encodes="WrappedMessage::{new, sign, verify} on the model codec with the idealised signature",
             bounds="body u8, all u64 timestamp/lamport values, 6 single-field mutations incl. any signature byte"),
        dict(name="unit::c16::successive_publishes_have_increasing_timestamps", prop="C16", timeout=600,
             encodes="EphemeralStreamPublisher::publish x2, HybridTimestamp::increment (encoding and signing are constant stubs here; they are the subject of the tamper harness)",
             bounds="arbitrary initial hybrid timestamp (lamport < u64::MAX-2), two independent wall-clock readings"),
    ],
)
_EPH_TB = ["Kani 0.68 / CBMC 6.11 / cadical",
           "model: p2panda_net::gossip::{GossipSubscription, GossipHandle} replaced by a scripted Stream honouring the Stream contract (registers the waker iff it returns Pending with nothing queued) and a recording publisher",
           "model: tracing macros are no-ops; crate::forge is a shim that only holds the signing key",
           "model: std::sync::Mutex (publisher's timestamp cell) replaced by a single-threaded exclusion cell"]
PROPS["C17"] = dict(
    units=["eph"],
    trusted_base=_EPH_TB + ["stub: WrappedMessage::from_bytes returns a verdict carried in the payload (decode+verify are not the subject; natively real CBOR + Ed25519 on real bytes)"],
    assumptions=["a wake-driven executor: after Pending the stream is polled again only if its waker was woken", "<= 3 invalid/lagged items in front of the valid one"],
    bounds="scripts of 0..3 junk items (each invalid-or-lagged symbolic) followed by a valid message, and junk followed by stream end",
    outside="the real broadcast channel inside GossipSubscription; longer junk prefixes (each is one more instance of the same step)",
    level_text=("Bounded model checking of the real EphemeralStreamSubscription::poll_next driven the way an executor drives a Stream: for every mix of invalid and lagged items in front of a valid "
                "message the message is yielded and Pending is never returned with items queued and no wake-up scheduled."),
    level_note="Trusted: Kani/CBMC; scripted subscription honouring the Stream contract; decode/verify verdict stubbed.",
)
PROPS["C16"] = dict(
    units=["eph"],
    trusted_base=_EPH_TB + ["model codec stands for ciborium on the encode side", "idealised Ed25519: sign records (message, signature), verify accepts exactly the recorded triple",
                            "stub: Timestamp::now returns an arbitrary u64 per publish"],
    assumptions=["message body type u8", "lamport part < u64::MAX - 2"],
    bounds="all timestamp values, 6 single-field mutations of a signed message; two publishes under two arbitrary clock readings",
    outside="WrappedMessage::from_bytes' CBOR decoding (byte-level ciborium); the gossip overlay; re-signing by another key is modelled as 'author field replaced' (the reported author is then the re-signer)",
    level_text=("Bounded model checking of the real WrappedMessage::{new,sign,verify} (p2panda's Serialize impls on a model codec, idealised signature) and of EphemeralStreamPublisher::publish with the wall "
                "clock as a symbolic variable: every tampered field is rejected, and two successive publishes carry strictly increasing timestamps and differ in their bytes for ANY clock readings. "
                "PARTIAL: the decode half (from_bytes) is outside."),
    level_note="Trusted: Kani/CBMC; ciborium -> model codec (encode side), Ed25519 idealised, clock symbolic.",
)

# ------------------------------------------------------------------------------------------------
# unit "node": style S1 inside the real `p2panda` crate (sync_metrics.rs)
# ------------------------------------------------------------------------------------------------
_P2 = "p2panda/src/"
UNITS["node"] = dict(
    name="node",
    package="p2panda",
    stage=[("repo",),
           ("shared_repo", "models/sym.rs", _P2 + "sym.rs"),
           ("shared_repo", "models/collections.rs", _P2 + "verif_models.rs"),
           ("append", _P2 + "lib.rs", "harness/inject/p2panda_lib.rs"),
           ("rewrite", _P2 + "streams/sync_metrics.rs", [USE_MODELS]),
           ("append", _P2 + "streams/sync_metrics.rs", "harness/inject/p2panda_sync_metrics.rs")],
    repo_paths=["p2panda/src/", "src/"],
    mem_gb=20,
    functions=[(_P2 + "streams/sync_metrics.rs", "Aggregator::process", r"pub fn process<E: Extensions>"),
               (_P2 + "streams/sync_metrics.rs", "Aggregator::handle_session_end", r"fn handle_session_end"),
               ("p2panda-sync/src/protocols/topic_log_sync.rs", "Metrics::sent_bytes", r"pub fn sent_bytes\(&self\)")],
    harnesses=[
        dict(name="streams::sync_metrics::verif_proofs::one_session_counted_once", prop="C40", timeout=600,
             encodes="Aggregator::process, handle_session_end, accessors", bounds="one session lifecycle (with/without live phase), all byte counts < 2^16"),
        dict(name="streams::sync_metrics::verif_proofs::two_sessions_interleaved", prop="C40", timeout=900,
             encodes="as above", bounds="two session lifecycles interleaved by a symbolic scheduler (all 252 interleavings), all byte counts < 2^16"),
        dict(name="streams::sync_metrics::verif_proofs::failed_session_ends_and_is_not_overcounted", prop="C40", timeout=600,
             encodes="Aggregator::process (Failed)", bounds="failure after 1..4 lifecycle events"),
    ],
)
PROPS["C40"] = dict(
    units=["node"],
    trusted_base=["Kani 0.68 / CBMC 6.11 / cadical", "staging: harness module appended to sync_metrics.rs inside the real p2panda crate (scratch copy)",
                  "model: std HashMap/HashSet -> inline-array contract models"],
    assumptions=["a session's events follow the lifecycle the sync layer emits (SessionStarted, SyncStarted, SyncFinished{sync metrics}, optional LiveModeStarted, SessionFinished{final = sync + live metrics})",
                 "byte counts < 2^16 per phase (no u32 overflow)", "one OperationReceived event (carrying the live counts) per live session"],
    bounds="one and two sessions, every interleaving of two lifecycles, symbolic byte counts",
    outside="more than two concurrent sessions; u32 overflow of the totals; events outside the documented lifecycle order",
    level_text=("Bounded model checking of the real Aggregator::process over session lifecycle scripts with symbolic byte counts and a symbolic scheduler interleaving two sessions: the totals equal "
                "the sum of what each session transferred (sync + live), every byte once, and running = started - ended at every point."),
    level_note="Trusted: Kani/CBMC; HashMap/HashSet contract models; events restricted to the documented lifecycle.",
)

# ------------------------------------------------------------------------------------------------
# unit "stream": S2 mount of p2panda-stream's processor / orderer units over the tokio model
# ------------------------------------------------------------------------------------------------
_ST = "p2panda-stream/src/"
UNITS["stream"] = dict(
    name="stream",
    stage=[("repo",), ("crate", "harness/stream"), ("lock",), SYM,
           ("mount", _ST + "processors/processor.rs", "src/staged/processor.rs", [INNER_DOCS]),
           ("mount", _ST + "processors/composed.rs", "src/staged/composed.rs", [INNER_DOCS]),
           ("mount", _ST + "processors/pipeline.rs", "src/staged/pipeline.rs", [INNER_DOCS]),
           ("mount", _ST + "orderer/orderer.rs", "src/staged/orderer.rs", [INNER_DOCS]),
           ("mount", _ST + "orderer/traits.rs", "src/staged/orderer_traits.rs", [INNER_DOCS]),
           ("mount", _ST + "orderer/processor.rs", "src/staged/orderer_processor.rs", [INNER_DOCS, STRIP_TESTS])],
    repo_paths=["src/staged/"],
    mem_gb=30,
    native_note="unit replay: the same staged units and the tokio contract model compiled natively and run with the solver's schedule",
    functions=[(_ST + "orderer/processor.rs", "Orderer::next", r"async fn next\(&self\) -> Result<Self::Output, Self::Error>"),
               (_ST + "orderer/orderer.rs", "CausalOrderer::next", r"pub async fn next\(&self\)"),
               (_ST + "processors/composed.rs", "ComposedProcessors::next", r"async fn next\(&self\) -> Result<Self::Output, Self::Error>"),
               (_ST + "processors/composed.rs", "ComposedProcessors::process", r"async fn process\(&self, input: T\)"),
               (_ST + "processors/pipeline.rs", "Pipeline::next", r"async fn next\(&self\) -> Result<Self::Output, Self::Error>")],
    harnesses=[
        dict(name="c12::cancel_within_first_three_polls", prop="C12", timeout=900, encodes="Orderer::next, CausalOrderer::next",
             bounds="the next() future is dropped after k in 0..2 polls (k symbolic), every store call pending exactly once; then a fresh next() runs to completion",
             may_be_witness=True, witnesses=[]),
        dict(name="c12::cancel_after_three_or_four_polls", prop="C12", timeout=900, encodes="as above", bounds="k in 3..4 (symbolic)", witnesses=[]),
        dict(name="c12::cancel_after_five_or_six_polls", prop="C12", timeout=900, encodes="as above", bounds="k in 5..6 (symbolic)", witnesses=[]),
        dict(name="c13::cancelled_next_loses_no_intermediate_item", prop="C13", timeout=900, encodes="ComposedProcessors::next over two FIFO processors",
             bounds="next() dropped after k in 0..3 polls, second stage's process() pending 0..1 times, symbolic select! start index"),
        dict(name="c13::one_item_exactly_once", prop="C13", timeout=900, encodes="PipelineBuilder::layer, Pipeline::{process,next}, ComposedProcessors::{process,next}",
             bounds="one symbolic input, second stage delay 0..1, symbolic select! start index"),
    ],
)
_ST_TB = ["Kani 0.68 / CBMC 6.11 / cadical",
          "model: tokio::sync::{Mutex,Notify}, task::yield_now and a two-branch select! (symbolic start branch, losers dropped) replaced by the tokio contract model",
          "real crates: p2panda-core, p2panda-store (traits only, default features off)"]
PROPS["C12"] = dict(
    units=["stream"],
    trusted_base=_ST_TB + ["model store: one item in the ready queue; take_next_ready dequeues tentatively inside the open transaction, dropping the permit without commit rolls back (TransactionPermit::drop), every store call pends once"],
    assumptions=["one released item", "a store call that has returned has taken effect; a dropped (pending) store call has not"],
    bounds="cancellation at every await point of Orderer::next (k = 0..6 polls, symbolic, split over three harnesses)",
    outside="SQLite's own atomicity; the Buffer task that does the cancelling; items with dependencies (CausalOrderer::process)",
    level_text=("Bounded model checking of the real Orderer::next / CausalOrderer::next with the cancellation point as the symbolic variable: whichever await the future is dropped at, the released item is "
                "returned by the next call and dequeued exactly once."),
    level_note="Trusted: Kani/CBMC; tokio contract model; model store with rollback-on-drop transactions.",
)
PROPS["C13"] = dict(
    units=["stream"],
    trusted_base=_ST_TB + ["model processors: two-slot FIFO processors whose process() pends 0..1 times and whose next() waits while empty"],
    assumptions=["two-stage chains, at most two items"],
    bounds="cancellation of next() after 0..3 polls; one item without cancellation; all select! start indices and delays",
    outside="Buffer (tokio::task::spawn_local + mpsc) and ProcessorStream::poll_next, which own a runtime task; chains longer than two stages",
    level_text=("Bounded model checking of the real ComposedProcessors / Pipeline code: (a) dropping a next() future at any poll count must not lose the item in flight between two stages; "
                "(b) without cancellation two items come out exactly once and in order for every select! branch order and processing delay. PARTIAL: Buffer/ProcessorStream are outside."),
    level_note="Trusted: Kani/CBMC; tokio contract model; FIFO model processors.",
)

# ------------------------------------------------------------------------------------------------
# unit "hs": S2 mount of p2panda-sync topic_handshake.rs + traits.rs
# ------------------------------------------------------------------------------------------------
_HS = "p2panda-sync/src/protocols/topic_handshake.rs"
UNITS["hs"] = dict(
    name="hs",
    stage=[("repo",), ("crate", "harness/hs"), ("lock",), SYM,
           ("mount", "p2panda-sync/src/traits.rs", "src/staged/traits.rs", [INNER_DOCS]),
           ("mount", _HS, "src/staged/topic_handshake.rs", [INNER_DOCS])],
    repo_paths=["src/staged/"],
    functions=[(_HS, "TopicHandshakeInitiator::run", r"async fn run\("),
               (_HS, "TopicHandshakeAcceptor::run", r"async fn run\(", r"impl<T, Evt> Protocol for TopicHandshakeAcceptor")],
    harnesses=[
        dict(name="c25::acceptor_outputs_initiators_topic_or_errs", prop="C25", timeout=300, encodes="TopicHandshakeAcceptor::run",
             bounds="every inbound transcript of 3 items, each Topic(t) | Done | transport error | end of stream, all topic values (u8)"),
        dict(name="c25::initiator_completes_or_errs", prop="C25", timeout=300, encodes="TopicHandshakeInitiator::run", bounds="every inbound transcript of 2 items, all topic values"),
        dict(name="c25::both_sides_agree_on_the_topic", prop="C25", timeout=300, encodes="TopicHandshakeInitiator::run then TopicHandshakeAcceptor::run on the recorded transcript", bounds="all topic values"),
        dict(name="c25::failing_sink_is_an_error", prop="C25", timeout=300, encodes="both run functions with a sink failing at the first or second send", bounds="failure position and side symbolic"),
    ],
)
PROPS["C25"] = dict(
    units=["hs"],
    trusted_base=["Kani 0.68 / CBMC 6.11 / cadical", "model: futures_channel::mpsc::Sender (event reporting) replaced by an always-ready recording sink",
                  "model: transport = scripted Stream (inbound transcript) and recording Sink; real futures_util::{SinkExt, StreamExt}",
                  "stub: std::fmt::format returns an empty string (error messages are not the subject)"],
    assumptions=["topic type u8", "the transport never returns Pending (hanging on a silent peer is the transport's timeout, not the handshake's)"],
    bounds="all transcripts of <= 3 inbound items over {Topic(t), Done, error, end}; sink failure at the first or second send",
    outside="the two sides running concurrently over a real transport; event channel back-pressure",
    level_text=("Bounded model checking of both real handshake run() functions against EVERY truncation/substitution of the inbound transcript: the acceptor's output, if any, is exactly the initiator's topic; honest "
                "transcripts complete on both sides; everything else ends in an error within the poll, never a hang or a wrong topic."),
    level_note="Trusted: Kani/CBMC; scripted transport; event channel model.",
)

# ------------------------------------------------------------------------------------------------
# unit "codec": S2 mount of p2panda-net/src/codec.rs against the real BytesMut / postcard
# ------------------------------------------------------------------------------------------------
_CO = "p2panda-net/src/codec.rs"
UNITS["codec"] = dict(
    name="codec",
    stage=[("repo",), ("crate", "harness/codec"), ("lock",), SYM, ("mount", _CO, "src/staged/codec.rs", [INNER_DOCS, STRIP_TESTS])],
    repo_paths=["src/staged/"],
    mem_gb=24,
    functions=[(_CO, "Codec::encode", r"fn encode\(&mut self, item: M"), (_CO, "Codec::decode", r"fn decode\(&mut self, src: &mut BytesMut\)")],
    harnesses=[
        dict(name="c26::one_frame_every_split_point", prop="C26", timeout=600, encodes="Codec::{encode, decode} with the real BytesMut and postcard",
             bounds="one [u8;2] message (all payload values), byte stream split into two chunks at every position 0..=6"),
        dict(name="c26::encode_limit_is_exact", prop="C26", timeout=600, encodes="Codec::encode", bounds="max_frame_len in 0..=5 against a 2-byte frame, all payload values"),
        dict(name="c26::decode_limit_is_exact", prop="C26", timeout=600, encodes="Codec::decode", bounds="any announced u32 length, any u32 maximum, 2 payload bytes present"),
        dict(name="c26::two_frames_in_order_every_split_point", prop="C26", timeout=900, encodes="Codec::{encode, decode}",
             bounds="two [u8;2] messages, chunk boundary at every position 0..=12"),
    ],
)
PROPS["C26"] = dict(
    units=["codec"],
    trusted_base=["Kani 0.68 / CBMC 6.11 / cadical", "no models: real tokio_util::bytes::BytesMut, tokio_util::codec traits and postcard are executed symbolically"],
    assumptions=["fixed-size messages ([u8; 2]) so that frame lengths are concrete (postcard varints would make lengths symbolic)", "at most two chunks per stream"],
    bounds="one frame x 7 split points, two frames x 13 split points; all payload values; limits: every announced u32 length against every u32 maximum",
    outside="variable-length messages (operations, sync messages), FramedRead/FramedWrite and the I/O layer, more than two chunks",
    level_text=("Bounded model checking of the real Codec::encode/decode over the real BytesMut and postcard: for every split point the decoder yields nothing until the frame is complete, then exactly the encoded message, "
                "consuming exactly the frame; and the size limit rejects exactly the frames above the maximum on both sides, for every 32-bit announced length. PARTIAL: fixed-size messages only."),
    level_note="Trusted: Kani/CBMC only; fixed-size message bound.",
)

PROPS["C18"].update(
    level_text=("Bounded model checking of the real HybridTimestamp::increment: the solver decides the strict-increase "
                "assertion for every 64-bit (timestamp, lamport, wall-clock) triple and for chains of two increments with "
                "independent clock readings — the quantifier of the property, not a sample of it."),
    level_note="Trusted: Kani/CBMC/cadical; Timestamp::now stubbed to an arbitrary u64; lamport < u64::MAX assumed.",
)

# ------------------------------------------------------------------------------------------------
# Properties this technique cannot decide (reason = measured or structural; DESIGN.md section 5)
# ------------------------------------------------------------------------------------------------
NOT_APPLICABLE = {
    "C04": "the deciding code is a closure run inside thread::spawn + tokio current-thread runtime + spawn_local and its effect is a SQL DELETE; no unit of it can be put in front of CBMC",
    "C08": "subject is SQL executed by libsqlite3 through sqlx (FFI + worker threads); not symbolically executable",
    "C09": "SQLite-backed stores (FFI); not symbolically executable",
    "C10": "SQLite transactions + tokio runtime + tokio::spawn in Drop; concurrency and FFI are outside Kani",
    "C11": "OrdererStore trait fixes std::collections::HashSet in its signature and readiness is a SQL row count; std containers explode in CBMC (2 BTreeMap inserts -> 37 GB)",
    "C15": "process abort + file-backed SQLite + node restart; nothing of it is symbolically executable",
    "C19": "LogSync::run is a 300-line async state machine over BTreeMap/CBOR/BLAKE3 moving ~500-byte operations; the much smaller ingest_operation already exhausts 56 GB in CBMC",
    "C20": "same protocol state machine as C19 plus concurrent store mutation; out of reach (see C19)",
    "C21": "needs two concurrently running protocol sides over a bounded transport; Kani has no concurrency and the state machines are out of reach (see C19)",
    "C22": "TopicLogSync::run: async state machine over tokio broadcast/SelectAll/CBOR; out of reach (see C19)",
    "C23": "manager event stream over tokio broadcast + SelectAll + several sessions; out of reach (see C19); its dedup core is decided under C24",
    "C27": "NodeInfo::update_transports owns Vec<TransportAddress> wrapping iroh's BTreeSet<TransportAddr>: clone/drop glue alone did not finish symbolic execution in 15 min; actor half needs ractor + SQLite",
    "C29": "TopicDropGuard owns a ractor ActorRef and the race is between OS threads inside an async fn calling into the actor; no extractable unit",
    "C30": "correctness rests on BLAKE3 preimage resistance; with the hash idealised nothing of the claim is left, the rest is HashSet plumbing in an async protocol",
    "C31": "GroupCrdt = petgraph DAG + HashMap of states + topological sort over unbounded histories; its algebraic core (state merge) is decided under C32",
    "C35": "X25519/HPKE/XChaCha20-Poly1305 over symbolic keys cannot be bit-blasted; idealised, the remaining DCGKA bookkeeping is HashMap-heavy state over causal histories",
    "C37": "X3DH/X25519/HPKE over symbolic keys cannot be bit-blasted; see C35",
    "C39": "Manager::process as harness entry makes the crypto stack reachable and Kani 0.68 aborts with an internal compiler error (kani-compiler intrinsics.rs:243) before verification starts",
}
