"""Runner for the solver-based checks (see DESIGN.md section 3).

check <ID> [--tier quick|thorough]
  stage the harness crate(s) of the property from /repo's *current working tree*  ->
  cargo kani (CBMC) on the harnesses of that tier, JSON export                    ->
  classify every CBMC check result                                              ->
  for unlisted failures: concrete playback + native replay                        ->
  evidence file, exit code (0 held / 1 VIOLATION / 2 inconclusive).
"""
import fcntl
import json
import os
import re
import shutil
import subprocess
import sys
import time

from . import staging
from .registry import PROPS, UNITS

VERIF = os.path.dirname(os.path.dirname(os.path.abspath(__file__)))   # /verif, or a snapshot of it (vp run)
REPO = os.environ.get("VERIF_REPO", "/repo")
WORK_ROOT = os.environ.get("VERIF_WORK", "/var/tmp/p2verif" if VERIF == "/verif" else "/var/tmp/p2verif-" + __import__("hashlib").md5(VERIF.encode()).hexdigest()[:8])
CACHE = os.environ.get("VERIF_CACHE", os.path.join(VERIF, ".cache"))
OUT = os.environ.get("VERIF_OUT", VERIF)   # evidence/ and replays/ live here (overridden for mutant trials)
KNOWN = os.path.join(VERIF, "KNOWN_FINDINGS.txt")

LABEL_RE = re.compile(r"^\"?(C\d\d\.[A-Za-z0-9_\-]+)")


def log(*a):
    print(*a, flush=True)


# --------------------------------------------------------------------------------------------
# known findings
# --------------------------------------------------------------------------------------------
def load_known():
    """finding: property=C13 harness=<name> label=<label> <text>   (suppresses exactly that triple)
    fixed: property=C18 <commit> <text>                             (suppresses nothing)"""
    out = []
    if not os.path.exists(KNOWN):
        return out
    for line in open(KNOWN):
        line = line.strip()
        if not line.startswith("finding:"):
            continue
        m = re.match(r"finding:\s+property=(\S+)\s+harness=(\S+)\s+label=(\S+)\s*(.*)", line)
        if m:
            out.append(dict(prop=m.group(1), harness=m.group(2), label=m.group(3), text=m.group(4)))
    return out


# --------------------------------------------------------------------------------------------
# kani
# --------------------------------------------------------------------------------------------
def kani_env():
    env = dict(os.environ)
    env["CARGO_NET_OFFLINE"] = "true"
    env.pop("RUSTFLAGS", None)
    env.pop("RUSTUP_TOOLCHAIN", None)
    return env


def run_kani(unit, workdir, crate_dir, harnesses, timeout_s, jobs, mem_gb, extra_flags, logpath, playback=False):
    """One cargo-kani invocation for a list of harnesses of one crate. Returns (rc, json|None, wall)."""
    tgt = os.path.join(CACHE, "kani-" + unit["name"])
    os.makedirs(tgt, exist_ok=True)
    jpath = os.path.join(workdir, "kani-result.json")
    if os.path.exists(jpath):
        os.remove(jpath)
    cmd = ["cargo", "kani", "--target-dir", tgt]
    if unit.get("package"):
        cmd += ["-p", unit["package"]]
    for f in unit.get("features", []):
        cmd += ["--features", f]
    if unit.get("no_default_features"):
        cmd += ["--no-default-features"]
    cmd += ["-Z", "stubbing", "-Z", "unstable-options"]
    cmd += ["--harness-timeout", "%ds" % timeout_s]
    if playback:
        cmd += ["-Z", "concrete-playback", "--concrete-playback=print"]
    else:
        cmd += ["-j", str(jobs), "--output-format", "terse", "--export-json", jpath]
    for h in harnesses:
        cmd += ["--harness", h]
    cmd += ["--exact"]
    cmd += extra_flags
    # must come last
    cmd += ["--cbmc-args", "--max-field-sensitivity-array-size", "1024"] + unit.get("cbmc_args", [])
    shell = "ulimit -v %d; exec %s" % (mem_gb * 1024 * 1024, " ".join(_q(c) for c in cmd))
    t0 = time.time()
    with open(logpath, "w") as lf:
        lf.write("$ " + shell + "\n")
        lf.flush()
        # generous outer cap: build + all harnesses
        outer = 900 + timeout_s * max(1, (len(harnesses) + jobs - 1) // jobs) + 60
        try:
            p = subprocess.run(["bash", "-c", shell], cwd=crate_dir, env=kani_env(), stdout=lf,
                               stderr=subprocess.STDOUT, timeout=outer)
            rc = p.returncode
        except subprocess.TimeoutExpired:
            rc = -9
    wall = time.time() - t0
    res = None
    if os.path.exists(jpath):
        try:
            res = json.load(open(jpath))
        except Exception:
            res = None
    return rc, res, wall


def _q(s):
    if re.match(r"^[A-Za-z0-9_\-./=:,+]+$", s):
        return s
    return "'" + s.replace("'", "'\\''") + "'"


def classify(unit, hspec, hres, workdir):
    """Turn one harness' CBMC check list into a verdict record."""
    out = dict(harness=hspec["name"], status=None, violations=[], inconclusive=[], covers_sat=[],
               covers_unsat=[], prop_asserts_ok=[], n_checks=0, n_ok=0, n_unreach=0)
    if hres is None:
        out["status"] = "inconclusive"
        out["inconclusive"].append("no result for harness (timeout, out of memory or Kani error)")
        return out
    checks = hres.get("checks", [])
    out["n_checks"] = len(checks)
    ignore = hspec.get("ignore_checks", []) + unit.get("ignore_checks", [])
    repo_markers = unit.get("repo_paths", [REPO + "/"])
    for c in checks:
        st = c.get("status", "")
        desc = c.get("description", "")
        loc = c.get("location", {}) or {}
        locs = "%s:%s" % (loc.get("file", "?"), loc.get("line", "?"))
        fn_name = c.get("function", "") or ""
        cat = c.get("category", "")
        m = LABEL_RE.match(desc)
        label = m.group(1) if m else None
        if cat == "cover":
            if st == "Satisfied":
                out["covers_sat"].append(desc)
                out["n_ok"] += 1
            else:
                out["covers_unsat"].append(desc)
            continue
        if st == "Success":
            out["n_ok"] += 1
            if label:
                out["prop_asserts_ok"].append(label)
            continue
        if st == "Unreachable":
            out["n_unreach"] += 1
            if label and label not in hspec.get("may_be_unreachable", []):
                out.setdefault("unreachable_labels", []).append(label)
            continue
        if st == "Failure":
            if any(re.search(p, desc + " @ " + locs + " in " + fn_name) for p in ignore):
                out["n_ok"] += 1
                out["n_ignored"] = out.get("n_ignored", 0) + 1
                continue
            if label:
                out["violations"].append(dict(label=label, desc=desc.strip('"'), loc=locs))
            elif cat == "unwind" or "unwinding assertion" in desc:
                out["inconclusive"].append("unwinding assertion failed at %s: loop bound of the harness too small for this tree" % locs)
            elif any(mk in (loc.get("file") or "") for mk in repo_markers) or (loc.get("file") or "").startswith("p2panda") \
                    or "/rustlib/src/rust/library/" in (loc.get("file") or "") or "/.cargo/registry/" in (loc.get("file") or ""):
                # a panic / overflow / out-of-bounds inside p2panda's own code, or raised by std / a
                # dependency on p2panda's behalf (slice index, unwrap, ...), on an input inside the harness'
                # precondition. It only becomes a VIOLATION if the native replay really panics.
                lab = hspec["name"].split("::")[-1]
                out["violations"].append(dict(label="%s.panic" % PROP_OF.get(hspec["name"], "C??"),
                                              desc="%s: %s" % (cat, desc), loc=locs, kind="panic", h=lab))
            else:
                out["inconclusive"].append("check failed in harness/model code (%s) %s at %s" % (cat, desc, locs))
            continue
        # Undetermined etc. (Kani marks everything undetermined once an unwinding assertion failed)
        out["n_other"] = out.get("n_other", 0) + 1
    # an assertion that became unreachable because an earlier check (e.g. a panic in p2panda code)
    # fails on every path is explained by that violation; otherwise the harness is vacuous
    if not out["violations"]:
        for l in out.get("unreachable_labels", []):
            out["inconclusive"].append("property assertion %s is unreachable (vacuous harness)" % l)
    if out.get("n_other"):
        out["inconclusive"].append("%d checks undetermined (follows from a failed unwinding assertion or solver error)" % out["n_other"])
    # (a failing assertion blocks the paths behind it, so witnesses are only demanded of clean harnesses)
    if not out["violations"]:
        for w in hspec.get("witnesses", None) or []:
            if not any(w in d for d in out["covers_sat"]):
                out["inconclusive"].append("required witness not satisfied: %s" % w)
        if hspec.get("witnesses") is None:
            for d in out["covers_unsat"]:
                out["inconclusive"].append("vacuity witness unsatisfiable: %s" % d)
    hstatus = hres.get("status")
    if not checks:
        out["inconclusive"].append("no checks reported (harness status %s: timeout, out of memory or CBMC error)" % hstatus)
    elif hstatus != "Success" and not out["violations"] and not out["inconclusive"] and not out.get("n_ignored"):
        out["inconclusive"].append("harness status %s without a failing check" % hstatus)
    n_labelled = len(out["prop_asserts_ok"]) + len([v for v in out["violations"] if v.get("kind") != "panic"])
    if checks and n_labelled == 0 and not out["violations"]:
        out["inconclusive"].append("no labelled property assertion was decided in this harness")
    if out["violations"]:
        out["status"] = "violation"
    elif out["inconclusive"]:
        out["status"] = "inconclusive"
    else:
        out["status"] = "held"
    return out


PROP_OF = {}


# --------------------------------------------------------------------------------------------
# concrete playback + native replay
# --------------------------------------------------------------------------------------------
def extract_playback(logtext, label=None):
    """Parse Kani's printed concrete-playback tests (one per cover/failed check).
    Returns the byte vectors (kani::any() call order) of the test generated for the failing
    assertion whose description starts with `label` (or the first assertion test)."""
    tests = []
    for m in re.finditer(r"/// Check for `(\w+)`: \"+(.*?)\"+\s*\n(.*?)kani::concrete_playback_run", logtext, re.S):
        kind, desc, body = m.group(1), m.group(2), m.group(3)
        vm = re.search(r"let concrete_vals: Vec<Vec<u8>> = vec!\[(.*)\];", body, re.S)
        if not vm:
            continue
        vals = []
        for v in re.finditer(r"vec!\[([0-9,\s]*)\]", vm.group(1)):
            vals.append([int(x) for x in v.group(1).replace(" ", "").split(",") if x.strip()])
        tests.append((kind, desc, vals))
    # Kani emits one test per distinct value vector: the counterexample of a failing assertion may be
    # filed under a cover property with identical values. Candidates, best first.
    cands = []
    if label:
        cands += [v for k, d, v in tests if k != "cover" and d.startswith(label)]
    cands += [v for k, d, v in tests if k != "cover" and v not in cands]
    cands += [v for k, d, v in tests if k == "cover" and v not in cands]
    return cands


def _tail(out):
    keep = [l for l in out.splitlines() if not re.match(r"\s*(Compiling|Downloaded|Finished|Running|warning|Blocking)", l)]
    return "\n".join(keep)[-1500:]


def native_replay(unit, workdir, crate_dir, harness, script_path, release=False, search=False):
    """Run the same harness body natively against the really compiled code with the script values."""
    tgt = os.path.join(CACHE, "native-" + unit["name"])
    env = dict(os.environ)
    env["CARGO_NET_OFFLINE"] = "true"
    env["CARGO_TARGET_DIR"] = tgt
    env["VERIF_HARNESS"] = harness
    env["VERIF_SCRIPT"] = script_path
    if search:
        env["VERIF_SEARCH"] = "1"
    flags = unit.get("native_rustflags", "")
    env["RUSTFLAGS"] = (flags + " --cfg verif_replay -A warnings").strip()
    cmd = ["cargo", "test", "--offline", "--lib"]
    if release:
        cmd += ["--release"]
    if unit.get("package"):
        cmd += ["-p", unit["package"]]
    for f in unit.get("native_features", unit.get("features", [])):
        cmd += ["--features", f]
    cmd += ["verif_replay_entry", "--", "--nocapture", "--test-threads", "1"]
    env.update(unit.get("native_env", {}))
    if unit.get("native_fakeclock"):
        so = os.path.join(CACHE, "fakeclock.so")
        if not os.path.exists(so):
            subprocess.run(["cc", "-shared", "-fPIC", "-O1", "-o", so, os.path.join(VERIF, "models", "fakeclock.c"), "-ldl"], check=True)
        env["LD_PRELOAD"] = so
    try:
        p = subprocess.run(cmd, cwd=crate_dir, env=env, stdout=subprocess.PIPE, stderr=subprocess.STDOUT,
                           timeout=1800, text=True)
        out = p.stdout
        rc = p.returncode
    except subprocess.TimeoutExpired as e:
        out = (e.stdout or "") + "\nTIMEOUT"
        rc = -9
    m = re.search(r"REPLAY-FAIL (\S+)", out)
    sm = re.search(r"SEARCH-SCRIPT ([0-9 ]*)", out)
    return dict(rc=rc, failed_label=m.group(1).rstrip(":") if m else None,
                completed="REPLAY-DONE" in out, tail=_tail(out), release=release,
                search_script=sm.group(1).strip() if sm else None)


# --------------------------------------------------------------------------------------------
# main
# --------------------------------------------------------------------------------------------
def check(pid, tier, seed, replay_only=None):
    t_start = time.time()
    spec = PROPS[pid]
    known = [k for k in load_known() if k["prop"] == pid]
    ev_path = os.path.join(OUT, "evidence", pid + ".json")
    os.makedirs(os.path.dirname(ev_path), exist_ok=True)
    os.makedirs(WORK_ROOT, exist_ok=True)
    os.makedirs(CACHE, exist_ok=True)

    per_harness = []
    kani_meta = {}
    notes = []
    hard_fail = []   # inconclusive reasons at unit level
    lines = []       # VIOLATION / KNOWN-FINDING lines
    n_viol = 0
    samples = []
    solver_s = 0.0
    vccs = 0
    functions = []

    for uname in spec["units"]:
        unit = UNITS[uname]
        hs = [h for h in unit["harnesses"] if h["prop"] == pid and (tier == "thorough" or h.get("tier", "quick") == "quick")]
        if tier == "thorough":
            # thorough runs the quick set too, except where a thorough harness supersedes it
            sup = set(x for h in hs for x in h.get("supersedes", []))
            hs = [h for h in hs if h["name"] not in sup]
        if not hs:
            continue
        for h in unit["harnesses"]:
            PROP_OF[h["name"]] = h["prop"]
        # order permuted by seed (verdicts do not depend on it)
        if seed:
            hs = hs[seed % len(hs):] + hs[:seed % len(hs)]
        workdir = os.path.join(WORK_ROOT, uname)
        lockf = open(os.path.join(WORK_ROOT, uname + ".lock"), "w")
        fcntl.flock(lockf, fcntl.LOCK_EX)
        try:
            try:
                crate_dir, finfo = staging.stage(unit, workdir, REPO, VERIF)
            except staging.StagingError as e:
                hard_fail.append("staging of unit %s failed: %s" % (uname, e))
                continue
            functions += finfo
            staging.touch_changed(workdir, os.path.join(CACHE, "kani-" + uname))
            tmo = max(h.get("timeout", 120) for h in hs) * (1 if tier == "quick" else 1)
            tmo = max(tmo, max(h.get("timeout_thorough", 0) for h in hs) if tier == "thorough" else 0)
            mem = unit.get("mem_gb", 14 if tier == "quick" else 30)
            jobs = min(unit.get("jobs", 8), len(hs))
            logpath = os.path.join(WORK_ROOT, "%s-%s-kani.log" % (uname, pid))
            rc, res, wall = run_kani(unit, workdir, crate_dir, [h["name"] for h in hs], tmo, jobs, mem,
                                     unit.get("kani_flags", []), logpath)
            logtxt = open(logpath, errors="replace").read()
            if res is None:
                hard_fail.append("cargo kani produced no result for unit %s (rc=%s); log tail:\n%s" % (uname, rc, logtxt[-2500:]))
                continue
            kani_meta = dict(kani=res.get("tools", {}).get("kani"), cbmc=res.get("tools", {}).get("cbmc"),
                             solver="cadical")
            results = {r["harness_id"]: r for r in res.get("verification_results", {}).get("results", [])}
            stats = {c["harness_id"]: (c.get("cbmc_stats") or {}) for c in res.get("cbmc", [])}
            pending = []
            for h in hs:
                r = results.get(h["name"])
                rec = classify(unit, h, r, workdir)
                st = stats.get(h["name"], {})
                rec["solver_s"] = round(st.get("runtime_decision_procedure_s") or 0.0, 3)
                rec["symex_s"] = round(st.get("runtime_symex_s") or 0.0, 3)
                rec["vccs"] = st.get("vccs_generated") or 0
                rec["vccs_remaining"] = st.get("vccs_remaining") or 0
                rec["wall_s"] = round((r or {}).get("duration_ms", 0) / 1000.0, 2)
                rec["bounds"] = h.get("bounds", "")
                rec["encodes"] = h.get("encodes", "")
                solver_s += rec["solver_s"]
                vccs += rec["vccs"]
                per_harness.append(rec)
                if rec["covers_sat"]:
                    samples.append(dict(harness=h["name"], witness_satisfied=rec["covers_sat"][:4]))
                # violations: known findings are matched per (harness, label); everything else is
                # replayed ONCE per harness (the counterexample reproduces one of the failing labels)
                labels = [x["label"] for x in rec["violations"]]
                unlisted = []
                for v in rec["violations"]:
                    v["siblings"] = labels
                    k = next((k for k in known if k["harness"] == h["name"] and k["label"] == v["label"]), None)
                    if k:
                        lines.append("KNOWN-FINDING: property=%s %s [%s %s]" % (pid, k["text"], h["name"], v["label"]))
                        v["known"] = True
                    else:
                        unlisted.append(v)
                if unlisted:
                    pending.append((h, rec, unlisted))
            # replay phase: cheapest violating harness first; one natively confirmed counterexample is
            # enough for the VIOLATION verdict, the other violating harnesses are listed unreplayed
            pending.sort(key=lambda t: t[1].get("wall_s", 0))
            confirmed = False
            tries = 0
            for (h, rec, unlisted) in pending:
                v = unlisted[0]
                v["siblings"] = [x["label"] for x in unlisted]
                if (confirmed or tries >= 3) and not os.environ.get("VERIF_REPLAY_ALL"):
                    for x in unlisted:
                        x["replay"] = dict(skipped="another counterexample of this property was already confirmed natively" if confirmed else "replay budget exhausted")
                    if not confirmed:
                        rec["inconclusive"].append("counterexample for %s not replayed (budget)" % ",".join(v["siblings"]))
                        rec["status"] = "inconclusive"
                    continue
                tries += 1
                rp = replay_violation(unit, workdir, crate_dir, h, v, pid, tmo, mem)
                for x in unlisted:
                    x["replay"] = dict(path=rp.get("path"), reproduced=rp.get("reproduced"), not_replayable=rp.get("not_replayable"))
                if rp.get("reproduced") or rp.get("not_replayable"):
                    confirmed = True
                    n_viol += 1
                    lines.append("VIOLATION property=%s replay=%s" % (pid, rp["path"]))
                else:
                    rec["inconclusive"].append("counterexample for %s did not reproduce natively (model or stub suspect); see %s" % (
                        ",".join(v["siblings"]), rp.get("path")))
                    rec["status"] = "inconclusive"
            if confirmed:
                # unreplayed siblings of a confirmed violation do not make the run inconclusive
                for (h, rec, unlisted) in pending:
                    rec["inconclusive"] = [i for i in rec["inconclusive"] if "did not reproduce" not in i and "not replayed" not in i] if rec["status"] != "inconclusive" else rec["inconclusive"]
        finally:
            if not os.environ.get("VERIF_KEEP_WORK"):
                shutil.rmtree(workdir, ignore_errors=True)
            fcntl.flock(lockf, fcntl.LOCK_UN)
            lockf.close()

    inconcl = list(hard_fail)
    for rec in per_harness:
        for i in rec["inconclusive"]:
            inconcl.append("%s: %s" % (rec["harness"], i))

    # ---------------- evidence ----------------
    n_assert_ok = sum(len(set(r["prop_asserts_ok"])) for r in per_harness)
    obligations = sum(r["n_checks"] for r in per_harness)
    discharged = sum(r["n_ok"] + r["n_unreach"] for r in per_harness)
    held = [r["harness"] for r in per_harness if r["status"] == "held"]
    ev = dict(
        property_id=pid, tier=tier, seed=seed, level="model_checking",
        coverage=dict(
            evaluations=len(per_harness),
            distinct_nontrivial=n_assert_ok + sum(len([v for v in r["violations"]]) for r in per_harness),
            rule=("one evaluation = one bounded-model-checking query (Kani harness -> CBMC -> cadical) over ALL values of the "
                  "harness' symbolic inputs inside the stated bounds; distinct_nontrivial = number of distinct labelled "
                  "property assertions that were reachable and decided (Success or Failure) across the harnesses; "
                  "unreachable assertions and unsatisfied witnesses make the run inconclusive instead of counting"),
            samples=samples or [dict(note="no witness satisfied")],
            obligations=obligations, discharged=discharged,
            checker_cmd="cargo kani -Z stubbing --harness <h> --exact (CBMC %s, cadical)" % kani_meta.get("cbmc", "?"),
            trusted_base=spec.get("trusted_base", []),
            functions_encoded=functions,
            harnesses=per_harness,
            vccs_generated=vccs, solver_time_s=round(solver_s, 3),
            bounds=spec.get("bounds", ""), outside_claim=spec.get("outside", ""),
            exhaustive=False,
            explanation=spec.get("explanation", ""),
        ),
        assumptions=spec.get("assumptions", []),
        wall_s=round(time.time() - t_start, 2),
        violations=n_viol,
        known_findings=[l for l in lines if l.startswith("KNOWN-FINDING")],
        inconclusive=inconcl,
        tools=kani_meta,
    )
    json.dump(ev, open(ev_path, "w"), indent=1)

    for l in lines:
        log(l)
    log("[%s/%s] harnesses=%d held=%d violations=%d known=%d inconclusive=%d solver=%.1fs wall=%.0fs" % (
        pid, tier, len(per_harness), len(held), n_viol, len([l for l in lines if l.startswith("KNOWN")]),
        len(inconcl), solver_s, time.time() - t_start))
    if n_viol:
        return 1
    if inconcl:
        for i in inconcl:
            log("INCONCLUSIVE: " + i)
        return 2
    return 0


def replay_violation(unit, workdir, crate_dir, h, v, pid, tmo, mem):
    rdir = os.path.join(OUT, "replays", pid)
    os.makedirs(rdir, exist_ok=True)
    base = os.path.join(rdir, h["name"].replace("::", "__") + "--" + v["label"].replace("/", "_"))
    logpath = os.path.join(WORK_ROOT, "%s-playback.log" % unit["name"])
    # the driver itself parses the (large) CBMC trace for playback: give it room
    rc, _, _ = run_kani(unit, workdir, crate_dir, [h["name"]], max(3 * tmo, 600), 1, int(os.environ.get("VERIF_PLAYBACK_MEM_GB", "58")), unit.get("kani_flags", []), logpath, playback=True)
    txt = open(logpath, errors="replace").read()
    vals = extract_playback(txt, None if v.get("kind") == "panic" else v["label"])
    rp = dict(path=base + ".json", harness=h["name"], label=v["label"], desc=v["desc"], loc=v["loc"])
    if not vals and h.get("native_search"):
        # Kani's trace was too large for concrete playback: enumerate the harness' small finite input
        # domain natively until a labelled assertion of this harness fails (the solver's verdict stays
        # the deciding step; this is the replay guard against model/stub artefacts)
        nat = native_replay(unit, workdir, crate_dir, h["name"], "/dev/null", release=False, search=True)
        rp["native_search"] = nat
        rp["note"] = "Kani printed no concrete playback (trace too large); counterexample found by native enumeration of the harness domain"
        rp["reproduced"] = nat["failed_label"] in v.get("siblings", [v["label"]])
        json.dump(rp, open(rp["path"], "w"), indent=1)
        return rp
    if not vals:
        rp["error"] = "Kani printed no concrete playback"
        json.dump(rp, open(rp["path"], "w"), indent=1)
        return rp
    cands = vals

    def write_script(val_list):
        with open(script, "w") as f:
            f.write("# counterexample for %s / %s (%s)\n# one kani::any() value per line, little-endian bytes, in call order\n" % (h["name"], v["label"], v["desc"]))
            for val in val_list:
                f.write(", ".join(str(b) for b in val) + "\n")

    script = base + ".script"
    write_script(cands[0])
    rp["script"] = script
    rp["values"] = cands[0]
    if unit.get("native") is False or h.get("native") is False:
        rp["not_replayable"] = True
        rp["note"] = h.get("native_note", unit.get("native_note", "no native twin for this harness"))
    else:
        tried = 0
        for cand in cands[:6]:
            write_script(cand)
            nat = native_replay(unit, workdir, crate_dir, h["name"], script, release=False)
            tried += 1
            rp["native_dev"] = nat
            rp["values"] = cand
            rp["reproduced"] = (nat["failed_label"] == v["label"]) or (nat["failed_label"] in v.get("siblings", [])) or (
                v.get("kind") == "panic" and nat["rc"] not in (0, 102, 103) and not nat["completed"])
            if rp["reproduced"]:
                break
        rp["candidates_tried"] = tried
        if rp.get("reproduced") and unit.get("native_release", True):
            rp["native_release"] = native_replay(unit, workdir, crate_dir, h["name"], script, release=True)
    rp["how_to_rerun"] = "cd /verif && ./check %s --replay %s" % (pid, rp["path"])
    json.dump(rp, open(rp["path"], "w"), indent=1)
    return rp


def replay_file(pid, path):
    rp = json.load(open(path))
    spec = PROPS[pid]
    for uname in spec["units"]:
        unit = UNITS[uname]
        if any(h["name"] == rp["harness"] for h in unit["harnesses"]):
            workdir = os.path.join(WORK_ROOT, uname)
            lockf = open(os.path.join(WORK_ROOT, uname + ".lock"), "w")
            fcntl.flock(lockf, fcntl.LOCK_EX)
            try:
                crate_dir, _ = staging.stage(unit, workdir, REPO, VERIF)
                nat = native_replay(unit, workdir, crate_dir, rp["harness"], rp["script"])
            finally:
                shutil.rmtree(workdir, ignore_errors=True)
            log(nat["tail"])
            if nat["failed_label"]:
                log("REPRODUCED %s on the current tree" % nat["failed_label"])
                return 1
            log("not reproduced on the current tree")
            return 0
    log("harness not found")
    return 2


def main(argv):
    import argparse
    ap = argparse.ArgumentParser()
    ap.add_argument("pid")
    ap.add_argument("--tier", default=os.environ.get("VERIF_TIER", "quick"))
    ap.add_argument("--replay")
    a = ap.parse_args(argv)
    if a.tier not in ("quick", "thorough"):
        a.tier = "quick"
    try:
        seed = int(os.environ.get("VERIF_SEED", "0"))
    except ValueError:
        seed = 0
    if a.pid not in PROPS:
        log("unknown or not-applicable property " + a.pid)
        return 2
    os.makedirs(WORK_ROOT, exist_ok=True)
    if a.replay:
        return replay_file(a.pid, a.replay)
    return check(a.pid, a.tier, seed)
