#!/bin/sh
# Nothing to build ahead of time: every check stages and compiles its harness crate from /repo's
# current tree (Kani build caches live under /verif/.cache and are created on demand).
set -e
cd "$(dirname "$0")"
mkdir -p .cache evidence replays /var/tmp/p2verif
command -v cargo-kani >/dev/null || { echo "cargo-kani missing"; exit 1; }
cargo kani --version
python3 -c "import vlib.registry, vlib.manifest; print('registry ok:', len(vlib.registry.PROPS), 'properties claimed')"
