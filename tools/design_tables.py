#!/usr/bin/env python3
"""Refresh the generated tables of DESIGN.md (between <!-- X:BEGIN --> / <!-- X:END --> markers)
from the registry, the evidence files, KNOWN_FINDINGS.txt and seeded/*/meta.json."""
import json, os, re, subprocess, sys
sys.path.insert(0, "/verif")
from vlib.registry import PROPS, UNITS

VERDICT = dict(C01="PARTIAL", C02="PARTIAL", C03="PARTIAL", C05="CLAIM", C06="CLAIM", C07="PARTIAL", C12="CLAIM", C13="PARTIAL",
               C14="CLAIM", C16="PARTIAL", C17="CLAIM", C18="CLAIM", C24="CLAIM", C25="CLAIM", C26="PARTIAL", C28="CLAIM", C32="CLAIM",
               C33="PARTIAL", C34="CLAIM", C36="CLAIM", C38="CLAIM", C40="CLAIM")
WHAT = dict(
 C01="accepted ⇒ signed ∧ verified ∧ version 1 ∧ payload/backlink info consistent ∧ body matches; every single-field mutation (incl. any signature byte) and 1-byte/length body change rejected",
 C02="`Header<()>`: decode(encode(h)) reproduces every field for all values and shapes (⇒ the encoding is injective)",
 C03="one inductive step: accepted ⇒ exactly the next hash-linked entry of the same author; the correctly linked next operation is accepted",
 C05="nothing is accepted at or below the stored height, with or without prune flag; newer prune points still accepted",
 C06="diff exact + merge law: 1 author × 2 logs all 25 shape pairs, 7 two-author shape pairs (thorough: 14 of 16 local shapes × all 16 remote shapes), all u32 heights",
 C07="advance = pointwise max, order-independent, never backwards, other logs untouched",
 C12="cancellation at every await of `Orderer::next` (symbolic poll count) loses nothing, item dequeued once",
 C13="one item through a 2-stage pipeline exactly once; cancellation of `next` (known finding)",
 C14="submitter vs pipeline thread at every sync point (both role assignments); two waiters; two concurrent `track`s; re-submission",
 C16="any tampered field ⇒ verify fails; two publishes strictly increasing for any pair of clock readings",
 C17="k junk items (invalid or lagged, symbolic) then a valid one ⇒ delivered, no Pending without wake-up; junk then end ⇒ ends",
 C18="strict increase for all 2^192 (timestamp, lamport, clock) triples; chains of two",
 C24="all 4^5 insert sequences × capacity 1–3 against a shift-register reference",
 C25="every 3-item inbound transcript for both roles; both real sides composed; failing sink",
 C26="every split point of one and of two frames; exact size limits for every u32 announced length and maximum; real BytesMut/postcard",
 C28="one step from any in-bounds state (default and symbolic config): bounds, reset after interval, growth",
 C32="commutative / associative / idempotent without conditions; with conditions (known findings) and restricted to consistent orders",
 C33="one operation from any 3-id state: accepted ⇒ author active manager (or self-removal) ∧ action valid ∧ only the target changes; also with conditions",
 C34="ONE inductive step from any valid ratchet state (head ≤ 4, ≤ 3 kept entries, windows ≤ 3): served ⇔ inside windows ∧ unused, sender's key, post-state keeps exactly the unused generations; window arithmetic for any u32 head",
 C36="latest = max(timestamp, id) for every insertion / merge order and map iteration order; generate strictly newer for any clock",
 C38="accepted ⇔ lifetime valid now ∧ signature ok; a returned bundle is valid at lookup (clock may step backwards); latest = furthest expiry",
 C40="totals = Σ per-session bytes counted once for every interleaving of two lifecycles; running = started − ended; failed sessions",
)

def known():
    fixed, finding = {}, {}
    for line in open("/verif/KNOWN_FINDINGS.txt"):
        m = re.match(r"fixed: property=(\S+) (\S+)", line)
        if m: fixed.setdefault(m.group(1), []).append(m.group(2))
        m = re.match(r"finding: property=(\S+)", line)
        if m: finding[m.group(1)] = finding.get(m.group(1), 0) + 1
    return fixed, finding

def results():
    fixed, finding = known()
    rows = ["| id | verdict | harnesses quick / thorough | quick wall | what the solver decides (inside the stated bounds) | found on the pinned tree |", "|---|---|---|---|---|---|"]
    for pid in sorted(PROPS):
        q = t = 0
        for u in PROPS[pid]["units"]:
            hs = [h for h in UNITS[u]["harnesses"] if h["prop"] == pid]
            q += len([h for h in hs if h.get("tier", "quick") == "quick"])
            t += len(hs)
        wall = "?"
        p = "/verif/evidence/%s.json" % pid
        if os.path.exists(p):
            e = json.load(open(p))
            wall = "%d s" % round(e["wall_s"]) if e["tier"] == "quick" else "(thorough run: %d s)" % round(e["wall_s"])
        found = []
        if pid in fixed: found.append("**defect, fixed** (%s)" % ", ".join(fixed[pid]))
        if pid in finding: found.append("**%d known finding%s**" % (finding[pid], "s" if finding[pid] > 1 else ""))
        rows.append("| %s | %s | %d / %d | %s | %s | %s |" % (pid, VERDICT[pid], q, t, wall, WHAT[pid], "; ".join(found) or "–"))
    return "\n".join(rows)

def seeded():
    return subprocess.run(["python3", "/verif/tools/seeded_meta.py"], capture_output=True, text=True).stdout.strip()

def main():
    p = "/verif/DESIGN.md"
    s = open(p).read()
    for name, gen in (("RESULTS", results), ("SEEDED", seeded)):
        b, e = "<!-- %s:BEGIN -->" % name, "<!-- %s:END -->" % name
        if b in s and e in s:
            s = s[:s.index(b) + len(b)] + "\n" + gen() + "\n" + s[s.index(e):]
    open(p, "w").write(s)

if __name__ == "__main__":
    main()
