#!/bin/bash
# Run checks against a scratch copy of /repo with a patch applied (mutant trial). Nothing in /repo
# or in /verif/evidence is touched.   usage: tools/trial.sh <patch.diff> <ID> [<ID>...]   (TIER=quick|thorough)
set -u
patch="$(readlink -f "$1")"; shift
n="trial-$$"
root="/var/tmp/p2verif-trials/$n"
mkdir -p "$root"
rsync -a --exclude /target --exclude .git /repo/ "$root/repo/"
( cd "$root/repo" && patch -p1 --no-backup-if-mismatch < "$patch" >/dev/null ) || { echo "patch does not apply"; rm -rf "$root"; exit 3; }
rc_all=0
for id in "$@"; do
  VERIF_REPO="$root/repo" VERIF_WORK="$root/work" VERIF_OUT="$root/out" VERIF_CACHE="${VERIF_TRIAL_CACHE:-/verif/.cache/trial}" \
    /verif/check "$id" --tier "${TIER:-quick}" 2>&1 | sed "s/^/[$id] /" | cut -c1-400
  rc=${PIPESTATUS[0]}
  echo "[$id] exit=$rc"
  [ "$rc" != 0 ] && rc_all=$rc
done
[ -n "${KEEP:-}" ] && echo "kept: $root" || rm -rf "$root"
exit $rc_all
