#!/bin/bash
# measure one harness in a kept work dir:  tools/kani1.sh <unit> <package-or-> <features-or-> <harness> [mem_kb]
unit=$1; pkg=$2; feats=$3; h=$4; mem=${5:-60000000}
dir=/var/tmp/p2verif/$unit; [ -d $dir/crate ] && cd $dir/crate || cd $dir/repo
args=""; [ "$pkg" != "-" ] && args="-p $pkg"; [ "$feats" != "-" ] && for f in ${feats//,/ }; do args="$args --features $f"; done
( ulimit -v $mem; /usr/bin/time -v cargo kani --target-dir /verif/.cache/kani-$unit $args -Z stubbing -Z unstable-options --harness-timeout 1800s --harness "$h" --exact --cbmc-args --max-field-sensitivity-array-size 1024 2>&1 ) | grep -v "aborting path\|Not unwinding" | egrep "SUMMARY|\*\* |Failed Checks|File:|VERIFICATION|Verification Time|Maximum resident|^error|Runtime Symex|size of program|Generated|CBMC failed|timed out" | head -40
