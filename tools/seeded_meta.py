#!/usr/bin/env python3
"""Write seeded/<id>/meta.json from the table below + the trial logs, and print the DESIGN.md table."""
import json, os, re, sys
S = "/verif/seeded"
INFO = {
 "c18-agent1": dict(prop="C18", file="p2panda-core/src/timestamp.rs", needs="wall clock strictly behind the stored timestamp (else-branch keeps `now` instead of the own timestamp)", checks=["C18", "C16"]),
 "c24-agent1": dict(prop="C24", file="p2panda-sync/src/dedup.rs", needs="a duplicate inserted while the buffer is full (eviction happens before the duplicate test)", checks=["C24"]),
 "c33-agent1": dict(prop="C33", file="p2panda-auth/src/group/crdt/state.rs", needs="an add authored by a removed (inactive) ex-manager: the activity check only selects the error variant", checks=["C33"]),
 "c05-agent1": dict(prop="C05", file="p2panda-core/src/prune.rs", needs="a prune-flagged operation at seq 0 arriving after a newer prune point was stored", checks=["C05", "C03"]),
 "c06-agent1": dict(prop="C06", file="p2panda-core/src/logs.rs", needs="same number of logs for an author on both sides but different log ids, remote heights dominating position-wise", checks=["C06"]),
 "c01-agent1": dict(prop="C01", file="p2panda-core/src/operation.rs", needs="a body attached to a validly signed header that claims no payload (size 0, no hash)", checks=["C01"]),
 "c28-agent1": dict(prop="C28", file="p2panda-net/src/discovery/backoff.rs", needs="the value has reached the maximum and then the reset interval elapses (early return skips the reset check)", checks=["C28"]),
 "c34-agent1": dict(prop="C34", file="p2panda-encryption/src/message_scheme/ratchet.rs", needs="a jump larger than the out-of-order window (ooo >= 2, forward window > ooo) followed by a request inside the window", checks=["C34"]),
 "c38-agent1": dict(prop="C38", file="p2panda-encryption/src/key_bundle/key_bundle.rs", needs="two long-term bundles: a valid one followed by a not-yet-valid one with the furthest expiry", checks=["C38"]),
 "c40-agent1": dict(prop="C40", file="p2panda/src/streams/sync_metrics.rs", needs="a live-mode session that receives an operation (OperationReceived overwrites the stored metrics) before it finishes", checks=["C40"]),
 "c14-agent1": dict(prop="C14", file="p2panda/src/processor/tasks.rs", needs="two submitters of the same operation both missing the read-locked lookup before either inserts (second insert overwrites the first task)", checks=["C14"]),

 "c07-agent1": dict(prop="C07", file="p2panda-core/src/cursor.rs", needs="advance to height 0 on a log that is not tracked yet (missing log treated as height 0)", checks=["C07"]),
 "c03-agent1": dict(prop="C03", file="p2panda-core/src/operation.rs", needs="an operation with seq = head - 1 whose backlink is the hash of the head (abs_diff makes the seq check symmetric)", checks=["C03", "C05"]),
 "c12-agent1": dict(prop="C12", file="p2panda-stream/src/orderer/processor.rs", needs="next() dropped at the get_operation await that follows the commit (re-introduces the repaired ordering)", checks=["C12"]),
 "c16-agent1": dict(prop="C16", file="p2panda/src/streams/ephemeral_stream.rs", needs="two publishes while the wall clock does not advance (incremented timestamp is not written back)", checks=["C16"]),
 "c17-agent1": dict(prop="C17", file="p2panda/src/streams/ephemeral_stream.rs", needs="a lagged item in front of queued valid messages (lagged arm returns Pending again)", checks=["C17"]),
 "c25-agent1": dict(prop="C25", file="p2panda-sync/src/protocols/topic_handshake.rs", needs="the stream closes right after the initiator's Topic: acceptor completes without the final Done", checks=["C25"]),
 "c26-agent1": dict(prop="C26", file="p2panda-net/src/codec.rs", needs="a chunk boundary inside the last four bytes of a frame (available-bytes check forgets the 4-byte prefix) -> slice panic", checks=["C26"]),
 "c32-agent1": dict(prop="C32", file="p2panda-auth/src/group/crdt/state.rs", needs="a member with different member counters on both sides and the older side holding the higher access counter", checks=["C32"]),
 "c36-agent1": dict(prop="C36", file="p2panda-encryption/src/data_scheme/group_secret.rs", needs="extend() of two bundles whose latest secrets have colliding timestamps, lower id first", checks=["C36"]),
 "c06-agent2": dict(prop="C06", file="p2panda-core/src/logs.rs", needs="remote knows the author but lacks a log whose local height is 0", checks=["C06"]),
 "c02-agent2": dict(prop="C02", file="p2panda-core/src/operation.rs", needs="a header carrying both a payload hash and a backlink (field_count one too small)", checks=["C02", "C01"]),
 "c14-agent2": dict(prop="C14", file="p2panda/src/processor/tasks.rs", needs="two waiters on one task: the first take()s the shared result", checks=["C14"]),
 "c13-agent2": dict(prop="C13", file="p2panda-stream/src/processors/composed.rs", needs="at least four items ready in the first stage at once (burst drain drops the 4th)", checks=["C13"], note="outside the bound of the C13 harnesses (<= 2 items per stage in the quick tier)"),
 "c38-agent2": dict(prop="C38", file="p2panda-encryption/src/key_registry.rs", needs="two one-time bundles [valid, later-added and meanwhile expired]: the expired one is popped", checks=["C38"]),
 "c34-agent2": dict(prop="C34", file="p2panda-encryption/src/message_scheme/ratchet.rs", needs="ooo_tolerance > max_forward + 1 and several forward calls before a late generation is requested (queue truncated too short)", checks=["C34"]),
 "c40-agent2": dict(prop="C40", file="p2panda/src/streams/sync_metrics.rs", needs="a session failing after its sync phase finished (stored bytes added again on Failed)", checks=["C40"]),
 "c25-agent2": dict(prop="C25", file="p2panda-sync/src/protocols/topic_handshake.rs", needs="the stream closes after the acceptor sent its Done but before the initiator's final Done (None accepted in place of Done)", checks=["C25"]),
 "c12-agent2": dict(prop="C12", file="p2panda-stream/src/orderer/processor.rs", needs="next() dropped at the (now non-transactional) get_operation await after the dequeue was committed", checks=["C12"]),
 "c28-agent2": dict(prop="C28", file="p2panda-net/src/discovery/backoff.rs", needs="value exactly at the maximum when the reset interval elapses (early return for value >= max skips the reset)", checks=["C28"]),
 "c07-agent2": dict(prop="C07", file="p2panda/src/streams/acked.rs", needs="a persisted cursor that already holds an entry for a foreign topic's log (via replace_cursor), then an ack of that foreign log", checks=["C07"],
                    note="NOT DETECTED: the change is in Acked::ack (SQLite store + tokio semaphore), which C07's PARTIAL claim states as outside the encoded code (only the Cursor algebra is decided)"),
 "c03-agent2": dict(prop="C03", file="p2panda-stream/src/ingest/operation.rs", needs="a late, older prune-flagged operation after a newer prune point was stored (lookup of the stored head skipped when the prune flag is set)", checks=["C05", "C03"],
                    note="missed by the checks as they stood (by construction: no harness encoded p2panda-stream/src/ingest/operation.rs, its glue was only modelled); caught after the real ingest_operation was mounted over a model store (harness/core/src/ingest.rs)"),
 "c33-agent2": dict(prop="C33", file="p2panda-auth/src/group/crdt/state.rs", needs="an active non-manager promoting or demoting ITSELF (the self-removal exception of remove() leaks into modify())", checks=["C33"]),
}
INFO.update(json.load(open(os.path.join(S, "extra_info.json"))) if os.path.exists(os.path.join(S, "extra_info.json")) else {})
rows = []
for sid in sorted(os.listdir(S)):
    d = os.path.join(S, sid)
    if not os.path.isdir(d) or sid not in INFO: continue
    info = INFO[sid]
    trial = os.path.join(d, "trial.log")
    det = {}
    if os.path.exists(trial):
        for line in open(trial):
            m = re.match(r"\[(C\d\d)\] (VIOLATION property=\S+ replay=\S*/replays/\S+?/(\S+)\.json|exit=(\d+))", line)
            if m:
                c = m.group(1)
                det.setdefault(c, dict(exit=None, replays=[]))
                if m.group(4) is not None: det[c]["exit"] = int(m.group(4))
                elif m.group(3): det[c]["replays"].append(m.group(3))
    caught = [c for c, v in det.items() if v["exit"] == 1]
    missed = [c for c, v in det.items() if v["exit"] == 0]
    inconcl = [c for c, v in det.items() if v["exit"] not in (0, 1, None)]
    meta = dict(id=sid, breaks_property=info["prop"], changed_file=info["file"], needs_to_manifest=info["needs"],
                written_by="independent sub-agent (saw only the property text and its own worktree)",
                confirmed=dict(how="seeded/%s/confirm.log: existing tests of the touched crate(s) pass with the change; the demonstration (demo.patch) fails with it and passes without it" % sid),
                checks_run=[("tools/trial.sh seeded/%s/patch.diff %s" % (sid, " ".join(info["checks"])))],
                detected_by={c: det[c]["replays"] for c in caught}, not_detected_by=missed, inconclusive=inconcl,
                note=info.get("note", ""))
    json.dump(meta, open(os.path.join(d, "meta.json"), "w"), indent=1)
    how = "; ".join("%s (%s)" % (c, ", ".join(r.split("--")[-1] for r in det[c]["replays"]) or "violation") for c in caught) or "—"
    rows.append("| `%s` | %s | %s | %s | %s |" % (sid, info["prop"], info["needs"], how, ", ".join(c + (" (the affected property: not detected)" if c == info["prop"] else " (unaffected property)") for c in missed) if missed else "–") + (" " + info.get("note", "") if info.get("note") else ""))
print("| seeded change | breaks | needs to manifest | caught by (assertion) | checks that stayed green |\n|---|---|---|---|---|")
print("\n".join(rows))
