#!/usr/bin/env python3
"""Write seeded/<id>/meta.json from the table below + the trial logs, and print the DESIGN.md table."""
import json, os, re, sys
S = "/verif/seeded"
INFO = {
 "c18-agent1": dict(prop="C18", file="p2panda-core/src/timestamp.rs", needs="wall clock strictly behind the stored timestamp (else-branch keeps `now` instead of the own timestamp)", checks=["C18", "C16"]),
 "c24-agent1": dict(prop="C24", file="p2panda-sync/src/dedup.rs", needs="a duplicate inserted while the buffer is full (eviction happens before the duplicate test)", checks=["C24"]),
 "c33-agent1": dict(prop="C33", file="p2panda-auth/src/group/crdt/state.rs", needs="an add authored by a removed (inactive) ex-manager: the activity check only selects the error variant", checks=["C33"]),
 "c05-agent1": dict(prop="C05", file="p2panda-core/src/prune.rs", needs="a prune-flagged operation at seq 0 arriving after a newer prune point was stored", checks=["C05", "C03"]),
 "c06-agent1": dict(prop="C06", file="p2panda-core/src/logs.rs", needs="same number of logs for an author on both sides but different log ids, remote heights dominating position-wise", checks=["C06"]),
 "c01-agent1": dict(prop="C01", file="p2panda-core/src/operation.rs", needs="a body attached to a validly signed header that claims no payload (size 0, no hash)", checks=["C01"]),
 "c28-agent1": dict(prop="C28", file="p2panda-net/src/discovery/backoff.rs", needs="the value has reached the maximum and then the reset interval elapses (early return skips the reset check)", checks=["C28"]),
 "c34-agent1": dict(prop="C34", file="p2panda-encryption/src/message_scheme/ratchet.rs", needs="a jump larger than the out-of-order window (ooo >= 2, forward window > ooo) followed by a request inside the window", checks=["C34"]),
 "c38-agent1": dict(prop="C38", file="p2panda-encryption/src/key_bundle/key_bundle.rs", needs="two long-term bundles: a valid one followed by a not-yet-valid one with the furthest expiry", checks=["C38"]),
 "c40-agent1": dict(prop="C40", file="p2panda/src/streams/sync_metrics.rs", needs="a live-mode session that receives an operation (OperationReceived overwrites the stored metrics) before it finishes", checks=["C40"]),
 "c14-agent1": dict(prop="C14", file="p2panda/src/processor/tasks.rs", needs="two submitters of the same operation both missing the read-locked lookup before either inserts (second insert overwrites the first task)", checks=["C14"]),
}
INFO.update(json.load(open(os.path.join(S, "extra_info.json"))) if os.path.exists(os.path.join(S, "extra_info.json")) else {})
rows = []
for sid in sorted(os.listdir(S)):
    d = os.path.join(S, sid)
    if not os.path.isdir(d) or sid not in INFO: continue
    info = INFO[sid]
    trial = os.path.join(d, "trial.log")
    det = {}
    if os.path.exists(trial):
        for line in open(trial):
            m = re.match(r"\[(C\d\d)\] (VIOLATION property=\S+ replay=\S*/replays/\S+?/(\S+)\.json|exit=(\d+))", line)
            if m:
                c = m.group(1)
                det.setdefault(c, dict(exit=None, replays=[]))
                if m.group(4) is not None: det[c]["exit"] = int(m.group(4))
                elif m.group(3): det[c]["replays"].append(m.group(3))
    caught = [c for c, v in det.items() if v["exit"] == 1]
    missed = [c for c, v in det.items() if v["exit"] == 0]
    inconcl = [c for c, v in det.items() if v["exit"] not in (0, 1, None)]
    meta = dict(id=sid, breaks_property=info["prop"], changed_file=info["file"], needs_to_manifest=info["needs"],
                written_by="independent sub-agent (saw only the property text and its own worktree)",
                confirmed=dict(how="seeded/%s/confirm.log: existing tests of the touched crate(s) pass with the change; the demonstration (demo.patch) fails with it and passes without it" % sid),
                checks_run=[("tools/trial.sh seeded/%s/patch.diff %s" % (sid, " ".join(info["checks"])))],
                detected_by={c: det[c]["replays"] for c in caught}, not_detected_by=missed, inconclusive=inconcl,
                note=info.get("note", ""))
    json.dump(meta, open(os.path.join(d, "meta.json"), "w"), indent=1)
    how = "; ".join("%s (%s)" % (c, ", ".join(r.split("--")[-1] for r in det[c]["replays"]) or "violation") for c in caught) or "—"
    rows.append("| `%s` | %s | %s | %s | %s |" % (sid, info["prop"], info["needs"], how, (", ".join(missed) + (" (unaffected property)" if missed else "")) if missed else "–") + (" " + info.get("note", "") if info.get("note") else ""))
print("| seeded change | breaks | needs to manifest | caught by (assertion) | checks that stayed green |\n|---|---|---|---|---|")
print("\n".join(rows))
