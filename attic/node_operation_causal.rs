
// ---- appended by /verif staging (harness crate copy only): C02 causal-extensions harness ----
pub mod verif_proofs {
    //! Two EQUAL causal extension values (same set of previous hashes, built independently) must
    //! encode to identical bytes; under the solver every iteration order of the set is explored,
    //! natively fresh std HashSets (independent random hashers) are tried up to 64 times.
    use super::*;
    use crate::sym;

    fn enc<T: serde::Serialize>(v: &T) -> Vec<u8> {
        #[cfg(kani)]
        { crate::mcodec::to_vec(v).unwrap() }
        #[cfg(not(kani))]
        { p2panda_core::cbor::encode_cbor(v).unwrap() }
    }
    fn bytes_eq(a: &[u8], b: &[u8]) -> bool {
        if a.len() != b.len() { return false; }
        let mut i = 0;
        let mut eq = true;
        while i < a.len() { if a[i] != b[i] { eq = false; } i += 1; }
        eq
    }
    fn causal(first: Hash, second: Hash) -> Extensions {
        let mut previous: HashSet<Hash> = HashSet::new();
        previous.insert(first);
        previous.insert(second);
        Extensions {
            version: EXTENSIONS_VERSION,
            variant: ExtensionsVariantV1::Causal(CausalExtensions { log_id: LogId(Hash::from_bytes([7u8; 32])), timestamp: Timestamp::new(5), previous }),
        }
    }

    #[cfg_attr(kani, kani::proof)]
    #[cfg_attr(kani, kani::unwind(140))]
    #[cfg_attr(kani, kani::stub(constant_time_eq::constant_time_eq_32, crate::env::cte32_stub))]
    pub fn causal_extensions_encoding_is_deterministic() {
        // the two hashes are concrete (their values are irrelevant to the question and symbolic 32-byte
        // keys make the set model's comparisons expensive); the symbolic variable is the iteration
        // order the set model picks for every traversal
        let ha = Hash::from_bytes([1u8; 32]);
        let hb = Hash::from_bytes([2u8; 32]);
        let max_tries = if cfg!(kani) { 1 } else { 64 };
        let mut tries = 0;
        while tries < max_tries {
            let x = causal(ha, hb);
            let y = causal(hb, ha);
            crate::vassert!(x == y, "C02.causal-equal: causal extensions holding the same set of previous hashes are equal values");
            let bx = enc(&x);
            let by = enc(&y);
            crate::vassert!(bytes_eq(&bx, &by), "C02.causal-deterministic: equal causal Node extensions (same set of previous hashes) encode to identical bytes");
            std::mem::forget((bx, by, x, y));
            tries += 1;
        }
    }
}
